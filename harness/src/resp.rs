//! Reference RESP encoder, strict reply reader and frame-guided walker.

use bitcask::net::frame::Frame;
use serde::{Deserialize, Serialize};

/// Serializable mirror of `Frame` (flat arrays only on the write side).
#[derive(Clone, Debug, Serialize, Deserialize, PartialEq, Eq)]
pub enum F {
    Simple(String),
    Error(String),
    Int(i64),
    Bulk(Vec<u8>),
    Null,
    Array(Vec<F>),
}

impl F {
    pub fn to_frame(&self) -> Frame {
        match self {
            F::Simple(s) => Frame::SimpleString(s.clone()),
            F::Error(s) => Frame::Error(s.clone()),
            F::Int(i) => Frame::Integer(*i),
            F::Bulk(b) => Frame::BulkString(bytes::Bytes::from(b.clone())),
            F::Null => Frame::Null,
            F::Array(v) => Frame::Array(v.iter().map(|f| f.to_frame()).collect()),
        }
    }
    pub fn from_frame(f: &Frame) -> F {
        match f {
            Frame::SimpleString(s) => F::Simple(s.clone()),
            Frame::Error(s) => F::Error(s.clone()),
            Frame::Integer(i) => F::Int(*i),
            Frame::BulkString(b) => F::Bulk(b.to_vec()),
            Frame::Null => F::Null,
            Frame::Array(v) => F::Array(v.iter().map(F::from_frame).collect()),
        }
    }
}

/// Canonical encoding.
pub fn encode(f: &F, out: &mut Vec<u8>) {
    match f {
        F::Simple(s) => {
            out.push(b'+');
            out.extend_from_slice(s.as_bytes());
            out.extend_from_slice(b"\r\n");
        }
        F::Error(s) => {
            out.push(b'-');
            out.extend_from_slice(s.as_bytes());
            out.extend_from_slice(b"\r\n");
        }
        F::Int(i) => {
            out.push(b':');
            out.extend_from_slice(i.to_string().as_bytes());
            out.extend_from_slice(b"\r\n");
        }
        F::Bulk(b) => {
            out.push(b'$');
            out.extend_from_slice(b.len().to_string().as_bytes());
            out.extend_from_slice(b"\r\n");
            out.extend_from_slice(b);
            out.extend_from_slice(b"\r\n");
        }
        F::Null => out.extend_from_slice(b"$-1\r\n"),
        F::Array(v) => {
            out.push(b'*');
            out.extend_from_slice(v.len().to_string().as_bytes());
            out.extend_from_slice(b"\r\n");
            for x in v {
                encode(x, out);
            }
        }
    }
}

pub fn encoded(f: &F) -> Vec<u8> {
    let mut v = Vec::new();
    encode(f, &mut v);
    v
}

/// Encode a command as an array of bulk strings.
pub fn command(parts: &[&[u8]]) -> Vec<u8> {
    encoded(&F::Array(parts.iter().map(|p| F::Bulk(p.to_vec())).collect()))
}

/// Strict reader for replies the server may send (simple string, error, integer, bulk, null).
/// Returns Ok(Some((frame, consumed))) for a complete reply, Ok(None) if more bytes are needed,
/// Err for bytes that are not a well-formed reply.
pub fn read_reply(b: &[u8]) -> Result<Option<(F, usize)>, String> {
    if b.is_empty() {
        return Ok(None);
    }
    let line_end = |from: usize| -> Option<usize> { b[from..].windows(2).position(|w| w == b"\r\n").map(|p| from + p) };
    match b[0] {
        b'+' | b'-' => {
            let e = match line_end(1) {
                Some(e) => e,
                None => {
                    if b[1..].contains(&b'\n') {
                        return Err("LF inside a simple string".into());
                    }
                    return Ok(None);
                }
            };
            let s = String::from_utf8(b[1..e].to_vec()).map_err(|_| "non UTF-8 simple string".to_string())?;
            if s.contains('\r') || s.contains('\n') {
                return Err("CR/LF inside a simple string".into());
            }
            Ok(Some((if b[0] == b'+' { F::Simple(s) } else { F::Error(s) }, e + 2)))
        }
        b':' => {
            let e = match line_end(1) {
                Some(e) => e,
                None => {
                    if b.len() > 24 {
                        return Err("integer line too long".into());
                    }
                    return Ok(None);
                }
            };
            let t = std::str::from_utf8(&b[1..e]).map_err(|_| "bad integer".to_string())?;
            let v: i64 = t.parse().map_err(|_| format!("bad integer {:?}", t))?;
            Ok(Some((F::Int(v), e + 2)))
        }
        b'$' => {
            let e = match line_end(1) {
                Some(e) => e,
                None => {
                    if b.len() > 24 {
                        return Err("bulk length line too long".into());
                    }
                    return Ok(None);
                }
            };
            let t = std::str::from_utf8(&b[1..e]).map_err(|_| "bad bulk length".to_string())?;
            if t == "-1" {
                return Ok(Some((F::Null, e + 2)));
            }
            let n: usize = t.parse().map_err(|_| format!("bad bulk length {:?}", t))?;
            let start = e + 2;
            if b.len() < start + n + 2 {
                // whatever is there must be consistent so far
                if b.len() > start + n && b[start + n] != b'\r' {
                    return Err("bulk payload not followed by CRLF".into());
                }
                return Ok(None);
            }
            if &b[start + n..start + n + 2] != b"\r\n" {
                return Err("bulk payload not followed by CRLF".into());
            }
            Ok(Some((F::Bulk(b[start..start + n].to_vec()), start + n + 2)))
        }
        other => Err(format!("unexpected reply type byte {:#x}", other)),
    }
}

/// Split a received byte stream into complete replies; returns the replies and the number of
/// trailing bytes that do not form a complete reply, or an error for malformed bytes.
pub fn split_replies(mut b: &[u8]) -> Result<(Vec<F>, usize), String> {
    let mut out = Vec::new();
    loop {
        match read_reply(b)? {
            Some((f, n)) => {
                out.push(f);
                b = &b[n..];
            }
            None => return Ok((out, b.len())),
        }
    }
}

// ------------------------------------------------------------------------------------------
// Frame guided walker

fn number_at(b: &[u8], pos: &mut usize) -> Result<i128, String> {
    // text up to CR, format [+-]?[0-9]+ ; the byte after CR is skipped unchecked, as the real
    // parser does
    let start = *pos;
    let cr = b[start..].iter().position(|&c| c == b'\r').ok_or_else(|| format!("no CR after the number at offset {}", start))? + start;
    let mut t = &b[start..cr];
    let neg = match t.first() {
        Some(b'-') => {
            t = &t[1..];
            true
        }
        Some(b'+') => {
            t = &t[1..];
            false
        }
        _ => false,
    };
    if t.is_empty() || !t.iter().all(|c| c.is_ascii_digit()) {
        return Err(format!("text {:?} at offset {} was accepted as a number", String::from_utf8_lossy(&b[start..cr]), start));
    }
    let mut v: i128 = 0;
    // leading zeros carry no value; more than 36 significant digits is far outside any range
    let sig: Vec<u8> = t.iter().copied().skip_while(|c| *c == b'0').collect();
    for (i, c) in sig.iter().enumerate() {
        if i >= 36 {
            v = i128::MAX / 4;
            break;
        }
        v = v * 10 + (*c - b'0') as i128;
    }
    if cr + 2 > b.len() {
        return Err(format!("number at offset {} is not followed by two terminator bytes within the consumed length", start));
    }
    *pos = cr + 2;
    Ok(if neg { -v } else { v })
}

/// Re-derive every number and payload of `frame` from the bytes the parser consumed.
pub fn walk(frame: &Frame, b: &[u8], pos: &mut usize) -> Result<(), String> {
    let ty = *b.get(*pos).ok_or("frame starts beyond the consumed bytes")?;
    let at = *pos;
    *pos += 1;
    match frame {
        Frame::SimpleString(s) | Frame::Error(s) => {
            let want = if matches!(frame, Frame::SimpleString(_)) { b'+' } else { b'-' };
            if ty != want {
                return Err(format!("type byte {:#x} at offset {} parsed as {:?}", ty, at, frame));
            }
            let cr = b[*pos..].iter().position(|&c| c == b'\r').ok_or("no CR in line")? + *pos;
            if &b[*pos..cr] != s.as_bytes() {
                return Err(format!("line at offset {} is {:?} but the frame says {:?}", at, String::from_utf8_lossy(&b[*pos..cr]), s));
            }
            *pos = cr + 2;
        }
        Frame::Integer(x) => {
            if ty != b':' {
                return Err(format!("type byte {:#x} at offset {} parsed as an integer", ty, at));
            }
            let v = number_at(b, pos)?;
            if v < i64::MIN as i128 || v > i64::MAX as i128 {
                return Err(format!("out-of-range integer at offset {} (written value {}) was accepted as {}", at, v, x));
            }
            if v != *x as i128 {
                return Err(format!("integer at offset {} is written as {} but was read as {}", at, v, x));
            }
        }
        Frame::Null => {
            if ty != b'$' || b.get(*pos..*pos + 3) != Some(b"-1\r") {
                return Err(format!("bytes at offset {} parsed as Null", at));
            }
            *pos += 4;
        }
        Frame::BulkString(bs) => {
            if ty != b'$' {
                return Err(format!("type byte {:#x} at offset {} parsed as a bulk string", ty, at));
            }
            let v = number_at(b, pos)?;
            if v < 0 || v > i64::MAX as i128 {
                return Err(format!("bulk length {} at offset {} is out of range but was accepted", v, at));
            }
            if v != bs.len() as i128 {
                return Err(format!("bulk length at offset {} is written as {} but {} bytes were returned", at, v, bs.len()));
            }
            let n = v as usize;
            if b.len() < *pos + n + 2 || &b[*pos..*pos + n] != bs.as_ref() {
                return Err(format!("bulk payload at offset {} differs from the bytes at the position its length implies", at));
            }
            *pos += n + 2;
        }
        Frame::Array(items) => {
            if ty != b'*' {
                return Err(format!("type byte {:#x} at offset {} parsed as an array", ty, at));
            }
            let v = number_at(b, pos)?;
            if v < 0 || v > i64::MAX as i128 {
                return Err(format!("array length {} at offset {} is out of range but was accepted", v, at));
            }
            if v != items.len() as i128 {
                return Err(format!("array length at offset {} is written as {} but {} items were returned", at, v, items.len()));
            }
            // iterative enough: depth is bounded by the parser's own recursion which already returned
            for it in items {
                walk(it, b, pos)?;
            }
        }
    }
    if *pos > b.len() {
        return Err("walker ran beyond the consumed bytes".into());
    }
    Ok(())
}
