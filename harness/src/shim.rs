//! Rust side of the LD_PRELOAD shim: registration, recorder, fault injector, perturbation.
//!
//! The callbacks run inside libc wrappers on whichever thread made the call.  They only touch
//! atomics and leaf mutexes, never perform tracked I/O, and never call back into the store.

use std::{
    cell::Cell,
    collections::HashMap,
    ffi::{CStr, CString},
    os::raw::c_char,
    path::Path,
    sync::{
        atomic::{AtomicBool, AtomicI32, AtomicI64, AtomicU32, AtomicU64, Ordering::SeqCst},
        Mutex,
    },
    time::{Duration, Instant},
};

#[repr(C)]
pub struct Event {
    kind: i32,
    fd: i32,
    flags: i32,
    sub: i32,
    path: *const c_char,
    path2: *const c_char,
    buf: *const u8,
    len: u64,
    off: i64,
}

#[repr(C)]
pub struct Action {
    action: i32,
    err: i32,
    n: u64,
}

const EV_OPEN: i32 = 1;
const EV_WRITE: i32 = 2;
const EV_FSYNC: i32 = 3;
const EV_UNLINK: i32 = 4;
const EV_MMAP: i32 = 5;
const EV_CLOSE: i32 = 6;
const EV_TRUNCATE: i32 = 7;
const EV_RENAME: i32 = 8;
const EV_PWRITE: i32 = 9;

const ACT_FAIL: i32 = 1;
const ACT_SHORT: i32 = 2;
const ACT_SPLIT: i32 = 3;

#[derive(Clone, Debug, PartialEq, Eq)]
pub enum Kind {
    /// open with O_CREAT
    Create,
    /// open without O_CREAT and without write access
    OpenRead,
    /// open without O_CREAT but with write access (never expected)
    OpenWrite,
    Write,
    Fsync,
    Unlink,
    Mmap,
    Close,
    /// truncate, rename, pwrite, link, fallocate ... (never expected on store files)
    Illegal(String),
    /// harness marker: (op index, is_end)
    Marker(usize, bool),
}

#[derive(Clone, Debug)]
pub struct Rec {
    pub kind: Kind,
    /// file name relative to the store directory being observed (last path component)
    pub file: String,
    /// full path relative to the scratch root
    pub rel: String,
    pub flags: i32,
    /// bytes actually written (for Write)
    pub data: Vec<u8>,
    pub req_len: u64,
    pub result: i64,
    pub err: i32,
    pub fd: i32,
    pub role: u8,
}

type RegisterFn = unsafe extern "C" fn(
    *const c_char,
    extern "C" fn(*const Event, *mut Action),
    extern "C" fn(*const Event, i64, i32),
    extern "C" fn(*const Event),
);

static REGISTERED: AtomicBool = AtomicBool::new(false);
static RECORDING: AtomicBool = AtomicBool::new(false);
/// copy the bytes of every recorded write (off for observations that only count calls)
static RECORD_DATA: AtomicBool = AtomicBool::new(true);
static RECORD_ONLY_FSYNC: AtomicBool = AtomicBool::new(false);
static ROOT: Mutex<String> = Mutex::new(String::new());
static LOG: Mutex<Vec<Rec>> = Mutex::new(Vec::new());
static FDS: Mutex<Option<HashMap<i32, (String, String)>>> = Mutex::new(None);

// injector
static INJECT_AT: AtomicI64 = AtomicI64::new(-1);
static INJECT_ERRNO: AtomicI32 = AtomicI32::new(0);
/// 0 = fail the call, 1 = short write now and fail the next write on the same descriptor
static INJECT_MODE: AtomicI32 = AtomicI32::new(0);
static SITE_COUNTER: AtomicI64 = AtomicI64::new(0);
static FAIL_NEXT_WRITE_FD: AtomicI32 = AtomicI32::new(-1);
static FIRED: AtomicI64 = AtomicI64::new(-1);
static CUR_OP: AtomicI64 = AtomicI64::new(-1);
static FIRED_IN_OP: AtomicI64 = AtomicI64::new(-1);
static FIRED_KIND: AtomicI32 = AtomicI32::new(0);
static FIRED_HINT: AtomicBool = AtomicBool::new(false);
/// site filter: event kind to count (0 = every site kind) and file kind (-1 any, 0 data, 1 hint)
static FILTER_KIND: AtomicI32 = AtomicI32::new(0);
static FILTER_HINT: AtomicI32 = AtomicI32::new(-1);

// perturbation
pub const MAX_ROLES: usize = 16;
pub const N_CLASSES: usize = 7;
#[derive(Clone, Copy, Debug, PartialEq, Eq)]
#[repr(u8)]
pub enum Class {
    WriteData = 0,
    WriteHint = 1,
    Create = 2,
    Unlink = 3,
    OpenRead = 4,
    Mmap = 5,
    Fsync = 6,
}
#[derive(Clone, Copy, Debug)]
pub struct PlanEntry {
    pub role: u8,
    pub class: u8,
    pub nth: u32,
    /// 0 = park before the call, 1 = split the write at `frac_pm`/1000 and park in between
    pub split: bool,
    pub frac_pm: u32,
    /// park until the other threads completed `m` operations ...
    pub m: u32,
    /// ... or this many microseconds have passed
    pub timeout_us: u64,
    /// instead of pausing, make the call fail with this errno (0 = no fault); only honoured for
    /// the read-side classes open-read and mmap
    pub fail_errno: i32,
}
static PLAN: Mutex<Vec<PlanEntry>> = Mutex::new(Vec::new());
static PLAN_ACTIVE: AtomicBool = AtomicBool::new(false);
#[allow(clippy::declare_interior_mutable_const)]
const ZERO_U32: AtomicU32 = AtomicU32::new(0);
#[allow(clippy::declare_interior_mutable_const)]
const ZERO_ROW: [AtomicU32; N_CLASSES] = [ZERO_U32; N_CLASSES];
static ROLE_COUNTS: [[AtomicU32; N_CLASSES]; MAX_ROLES] = [ZERO_ROW; MAX_ROLES];
pub static OPS_DONE: AtomicU64 = AtomicU64::new(0);
/// role given to threads that never called `set_role` (0 = none); lets plans reach threads the
/// harness does not create itself (the server's blocking pool)
static DEFAULT_ROLE: AtomicU32 = AtomicU32::new(0);
static FIRED_PERTURB: AtomicU32 = AtomicU32::new(0);

thread_local! {
    /// a planned read-side fault was injected into a call of this thread since the last reset
    static FAULTED: Cell<bool> = Cell::new(false);
    static QUIET: Cell<bool> = Cell::new(false);
    static ROLE: Cell<u8> = Cell::new(0);
    static PENDING_PARK: Cell<Option<(u32, u64)>> = Cell::new(None);
}

/// Run `f` with the calling thread's file-system calls neither recorded, injected nor perturbed
/// (for the harness's own reads of the store directory).
pub fn quiet<T>(f: impl FnOnce() -> T) -> T {
    let prev = QUIET.with(|c| c.replace(true));
    let r = f();
    QUIET.with(|c| c.set(prev));
    r
}

/// Set the role of the calling thread (0 = none; such threads are recorded but never perturbed).
pub fn set_role(r: u8) {
    ROLE.with(|c| c.set(r));
}

pub fn present() -> bool {
    unsafe {
        let name = CString::new("vshim_present").unwrap();
        !libc::dlsym(libc::RTLD_DEFAULT, name.as_ptr()).is_null()
    }
}

/// Register the callbacks for everything below `root`.  Idempotent per process.
pub fn register(root: &Path) {
    let root_s = root.to_string_lossy().to_string();
    {
        let mut r = ROOT.lock().unwrap();
        if REGISTERED.load(SeqCst) && *r == root_s {
            return;
        }
        *r = root_s.clone();
    }
    unsafe {
        let name = CString::new("vshim_register").unwrap();
        let sym = libc::dlsym(libc::RTLD_DEFAULT, name.as_ptr());
        assert!(!sym.is_null(), "shim not loaded");
        let f: RegisterFn = std::mem::transmute(sym);
        let c = CString::new(root_s).unwrap();
        *FDS.lock().unwrap() = Some(HashMap::new());
        f(c.as_ptr(), pre_cb, post_cb, mid_cb);
    }
    REGISTERED.store(true, SeqCst);
}

fn rel_of(path: *const c_char) -> (String, String) {
    if path.is_null() {
        return (String::new(), String::new());
    }
    let s = unsafe { CStr::from_ptr(path) }.to_string_lossy().to_string();
    let root = ROOT.lock().unwrap().clone();
    let rel = s.strip_prefix(&root).unwrap_or(&s).trim_start_matches('/').to_string();
    let file = rel.rsplit('/').next().unwrap_or("").to_string();
    (file, rel)
}

fn fd_name(fd: i32) -> (String, String) {
    FDS.lock()
        .unwrap()
        .as_ref()
        .and_then(|m| m.get(&fd).cloned())
        .unwrap_or_default()
}

fn is_site(kind: i32, flags: i32) -> bool {
    match kind {
        EV_WRITE | EV_FSYNC | EV_UNLINK => true,
        EV_OPEN => flags & libc::O_CREAT != 0,
        _ => false,
    }
}

fn class_of(ev: &Event, file: &str) -> Option<Class> {
    match ev.kind {
        EV_WRITE => {
            if file.ends_with(".hint") {
                Some(Class::WriteHint)
            } else {
                Some(Class::WriteData)
            }
        }
        EV_OPEN => {
            if ev.flags & libc::O_CREAT != 0 {
                Some(Class::Create)
            } else {
                Some(Class::OpenRead)
            }
        }
        EV_UNLINK => Some(Class::Unlink),
        EV_MMAP => Some(Class::Mmap),
        EV_FSYNC => Some(Class::Fsync),
        _ => None,
    }
}

fn park(m: u32, timeout_us: u64) {
    let start = OPS_DONE.load(SeqCst);
    let t0 = Instant::now();
    let lim = Duration::from_micros(timeout_us);
    while OPS_DONE.load(SeqCst) < start + m as u64 && t0.elapsed() < lim {
        std::thread::sleep(Duration::from_micros(50));
    }
}

extern "C" fn pre_cb(ev: *const Event, act: *mut Action) {
    let ev = unsafe { &*ev };
    let act = unsafe { &mut *act };
    if QUIET.with(|c| c.get()) {
        return;
    }
    // ---- injector
    if INJECT_AT.load(SeqCst) >= 0 || FAIL_NEXT_WRITE_FD.load(SeqCst) >= 0 {
        if ev.kind == EV_WRITE && FAIL_NEXT_WRITE_FD.load(SeqCst) == ev.fd {
            FAIL_NEXT_WRITE_FD.store(-1, SeqCst);
            act.action = ACT_FAIL;
            act.err = INJECT_ERRNO.load(SeqCst);
            return;
        }
        let fk = FILTER_KIND.load(SeqCst);
        let fh = FILTER_HINT.load(SeqCst);
        let filter_ok = (fk == 0 || fk == ev.kind || (fk < 0 && -fk != ev.kind))
            && (fh < 0 || {
                let fname = if ev.kind == EV_OPEN || ev.kind == EV_UNLINK { rel_of(ev.path).0 } else { fd_name(ev.fd).0 };
                fname.ends_with(".hint") == (fh == 1)
            });
        if is_site(ev.kind, ev.flags) && filter_ok {
            let n = SITE_COUNTER.fetch_add(1, SeqCst);
            if n == INJECT_AT.load(SeqCst) {
                FIRED.store(n, SeqCst);
                FIRED_IN_OP.store(CUR_OP.load(SeqCst), SeqCst);
                FIRED_KIND.store(ev.kind, SeqCst);
                let fname = if ev.kind == EV_OPEN || ev.kind == EV_UNLINK {
                    rel_of(ev.path).0
                } else {
                    fd_name(ev.fd).0
                };
                FIRED_HINT.store(fname.ends_with(".hint"), SeqCst);
                INJECT_AT.store(-1, SeqCst);
                if ev.kind == EV_WRITE && INJECT_MODE.load(SeqCst) == 1 && ev.len >= 2 {
                    act.action = ACT_SHORT;
                    act.n = ev.len / 2;
                    FAIL_NEXT_WRITE_FD.store(ev.fd, SeqCst);
                } else {
                    act.action = ACT_FAIL;
                    act.err = INJECT_ERRNO.load(SeqCst);
                }
                return;
            }
        }
    } else if RECORDING.load(SeqCst) && is_site(ev.kind, ev.flags) {
        SITE_COUNTER.fetch_add(1, SeqCst);
    }
    // ---- perturbation
    if PLAN_ACTIVE.load(SeqCst) {
        let mut role = ROLE.with(|c| c.get());
        if role == 0 {
            role = DEFAULT_ROLE.load(SeqCst) as u8;
        }
        if role != 0 && (role as usize) < MAX_ROLES {
            let file = if ev.kind == EV_OPEN || ev.kind == EV_UNLINK {
                rel_of(ev.path).0
            } else {
                fd_name(ev.fd).0
            };
            if let Some(cl) = class_of(ev, &file) {
                let nth = ROLE_COUNTS[role as usize][cl as usize].fetch_add(1, SeqCst);
                let hit = {
                    let plan = PLAN.lock().unwrap();
                    plan.iter()
                        .find(|p| p.role == role && p.class == cl as u8 && p.nth == nth)
                        .copied()
                };
                if let Some(p) = hit {
                    FIRED_PERTURB.fetch_add(1, SeqCst);
                    if p.fail_errno != 0 && (cl == Class::OpenRead || cl == Class::Mmap) {
                        FAULTED.with(|c| c.set(true));
                        act.action = ACT_FAIL;
                        act.err = p.fail_errno;
                        return;
                    }
                    if p.split && ev.kind == EV_WRITE && ev.len >= 2 {
                        let n = ((ev.len as u128 * p.frac_pm as u128) / 1000) as u64;
                        let n = n.clamp(1, ev.len - 1);
                        act.action = ACT_SPLIT;
                        act.n = n;
                        PENDING_PARK.with(|c| c.set(Some((p.m, p.timeout_us))));
                    } else {
                        park(p.m, p.timeout_us);
                    }
                }
            }
        }
    }
}

extern "C" fn mid_cb(_ev: *const Event) {
    if let Some((m, t)) = PENDING_PARK.with(|c| c.take()) {
        park(m, t);
    }
}

extern "C" fn post_cb(ev: *const Event, result: i64, err: i32) {
    let ev = unsafe { &*ev };
    // maintain fd table
    let (file, rel) = match ev.kind {
        EV_OPEN => {
            let n = rel_of(ev.path);
            if result >= 0 {
                if let Some(m) = FDS.lock().unwrap().as_mut() {
                    m.insert(result as i32, n.clone());
                }
            }
            n
        }
        EV_CLOSE => {
            let n = fd_name(ev.fd);
            if let Some(m) = FDS.lock().unwrap().as_mut() {
                m.remove(&ev.fd);
            }
            n
        }
        EV_UNLINK | EV_RENAME => rel_of(ev.path),
        EV_TRUNCATE if ev.fd < 0 => rel_of(ev.path),
        _ => {
            if ev.fd >= 0 {
                fd_name(ev.fd)
            } else {
                rel_of(ev.path)
            }
        }
    };
    if !RECORDING.load(SeqCst) || QUIET.with(|c| c.get()) {
        return;
    }
    if RECORD_ONLY_FSYNC.load(SeqCst) && ev.kind != EV_FSYNC {
        return;
    }
    let kind = match ev.kind {
        EV_OPEN => {
            if ev.flags & libc::O_CREAT != 0 {
                Kind::Create
            } else if ev.flags & libc::O_ACCMODE != libc::O_RDONLY {
                Kind::OpenWrite
            } else {
                Kind::OpenRead
            }
        }
        EV_WRITE => Kind::Write,
        EV_FSYNC => Kind::Fsync,
        EV_UNLINK => Kind::Unlink,
        EV_MMAP => Kind::Mmap,
        EV_CLOSE => Kind::Close,
        EV_TRUNCATE => Kind::Illegal("truncate".into()),
        EV_RENAME => Kind::Illegal("rename".into()),
        EV_PWRITE => Kind::Illegal("pwrite".into()),
        _ => Kind::Illegal(format!("other-{}", ev.sub)),
    };
    let data = if ev.kind == EV_WRITE && result > 0 && !ev.buf.is_null() && RECORD_DATA.load(SeqCst) {
        unsafe { std::slice::from_raw_parts(ev.buf, result as usize) }.to_vec()
    } else {
        Vec::new()
    };
    let rec = Rec {
        kind,
        file,
        rel,
        flags: ev.flags,
        data,
        req_len: ev.len,
        result,
        err,
        fd: if ev.kind == EV_OPEN { result as i32 } else { ev.fd },
        role: ROLE.with(|c| c.get()),
    };
    LOG.lock().unwrap().push(rec);
}

// ------------------------------------------------------------------------------------------
// Harness API

/// Start recording into an empty log.
pub fn record_start() {
    LOG.lock().unwrap().clear();
    SITE_COUNTER.store(0, SeqCst);
    CUR_OP.store(-1, SeqCst);
    RECORDING.store(true, SeqCst);
}

/// Start recording calls without copying written bytes, and only calls of the given kind
/// (fsync observation under heavy write load).
pub fn record_start_fsync_only() {
    RECORD_DATA.store(false, SeqCst);
    RECORD_ONLY_FSYNC.store(true, SeqCst);
    record_start();
}

/// Current length of the log.
pub fn log_len() -> usize {
    LOG.lock().unwrap().len()
}

/// Stop recording and return the log.
pub fn record_stop() -> Vec<Rec> {
    RECORDING.store(false, SeqCst);
    RECORD_DATA.store(true, SeqCst);
    RECORD_ONLY_FSYNC.store(false, SeqCst);
    std::mem::take(&mut *LOG.lock().unwrap())
}

/// Insert a marker into the log and remember the current operation for the injector.
pub fn marker(op: usize, end: bool) {
    CUR_OP.store(if end { -1 } else { op as i64 }, SeqCst);
    if RECORDING.load(SeqCst) {
        LOG.lock().unwrap().push(Rec {
            kind: Kind::Marker(op, end),
            file: String::new(),
            rel: String::new(),
            flags: 0,
            data: Vec::new(),
            req_len: 0,
            result: 0,
            err: 0,
            fd: -1,
            role: 0,
        });
    }
}

/// Arm one fault: the `site`-th fault-site call (create, write, fsync, unlink, counted from 0)
/// fails with `errno`; with `short` a write first succeeds for half its length and the next
/// write on the same descriptor fails.
pub fn inject_arm(site: i64, errno: i32, short: bool) {
    FILTER_KIND.store(0, SeqCst);
    FILTER_HINT.store(-1, SeqCst);
    inject_arm_inner(site, errno, short);
}

/// Like `inject_arm`, but fsync/fdatasync calls are neither counted nor failed (for stores whose
/// background task syncs on a timer: those calls come at arbitrary moments and on nobody's behalf).
pub fn inject_arm_no_fsync(site: i64, errno: i32, short: bool) {
    FILTER_KIND.store(-EV_FSYNC, SeqCst);
    FILTER_HINT.store(-1, SeqCst);
    inject_arm_inner(site, errno, short);
}

/// Arm one fault at the `nth` creation of a hint file (counted from 0).
pub fn inject_arm_hint_create(nth: i64, errno: i32) {
    FILTER_KIND.store(EV_OPEN, SeqCst);
    FILTER_HINT.store(1, SeqCst);
    inject_arm_inner(nth, errno, false);
}

fn inject_arm_inner(site: i64, errno: i32, short: bool) {
    SITE_COUNTER.store(0, SeqCst);
    FIRED.store(-1, SeqCst);
    FIRED_IN_OP.store(-1, SeqCst);
    FAIL_NEXT_WRITE_FD.store(-1, SeqCst);
    INJECT_ERRNO.store(errno, SeqCst);
    INJECT_MODE.store(if short { 1 } else { 0 }, SeqCst);
    INJECT_AT.store(site, SeqCst);
}

/// What the injector actually hit.
#[derive(Clone, Copy, Debug)]
pub struct Fired {
    pub site: i64,
    /// op index announced by the last start marker (-1: between ops)
    pub op: i64,
    /// "create" | "write" | "fsync" | "unlink"
    pub call: &'static str,
    pub hint_file: bool,
}

/// Disarm; returns what fired, if the fault fired.
pub fn inject_disarm() -> Option<Fired> {
    INJECT_AT.store(-1, SeqCst);
    FAIL_NEXT_WRITE_FD.store(-1, SeqCst);
    let f = FIRED.load(SeqCst);
    if f >= 0 {
        Some(Fired {
            site: f,
            op: FIRED_IN_OP.load(SeqCst),
            call: match FIRED_KIND.load(SeqCst) {
                EV_OPEN => "create",
                EV_WRITE => "write",
                EV_FSYNC => "fsync",
                EV_UNLINK => "unlink",
                _ => "other",
            },
            hint_file: FIRED_HINT.load(SeqCst),
        })
    } else {
        None
    }
}

pub fn inject_fired() -> bool {
    FIRED.load(SeqCst) >= 0
}

/// Install a perturbation plan and reset the per-role counters.
pub fn plan_install(plan: Vec<PlanEntry>) {
    for r in ROLE_COUNTS.iter() {
        for c in r.iter() {
            c.store(0, SeqCst);
        }
    }
    FIRED_PERTURB.store(0, SeqCst);
    OPS_DONE.store(0, SeqCst);
    *PLAN.lock().unwrap() = plan;
    PLAN_ACTIVE.store(true, SeqCst);
}

/// Remove the plan; returns how many planned perturbations fired.
pub fn plan_clear() -> u32 {
    PLAN_ACTIVE.store(false, SeqCst);
    PLAN.lock().unwrap().clear();
    FIRED_PERTURB.load(SeqCst)
}

/// Reset / read the calling thread's "a planned read fault hit one of my calls" flag.
pub fn fault_flag_reset() {
    FAULTED.with(|c| c.set(false));
}
pub fn fault_flag() -> bool {
    FAULTED.with(|c| c.get())
}

pub fn set_default_role(r: u8) {
    DEFAULT_ROLE.store(r as u32, SeqCst);
}

pub fn op_done() {
    OPS_DONE.fetch_add(1, SeqCst);
}

/// Make the next `n` accept()/accept4() calls of this process fail with `errno` (the pending
/// connection stays in the backlog).  Self-contained in the shim, needs no `register`.
pub fn accept_arm(n: u32, errno: i32) {
    unsafe {
        let name = CString::new("vshim_accept_arm").unwrap();
        let sym = libc::dlsym(libc::RTLD_DEFAULT, name.as_ptr());
        assert!(!sym.is_null(), "shim not loaded");
        let f: extern "C" fn(i32, i32) = std::mem::transmute(sym);
        f(n as i32, errno);
    }
}

/// Disarm; returns how many accepts failed since the last `accept_arm`.
pub fn accept_disarm() -> u32 {
    unsafe {
        let name = CString::new("vshim_accept_disarm").unwrap();
        let sym = libc::dlsym(libc::RTLD_DEFAULT, name.as_ptr());
        if sym.is_null() {
            return 0;
        }
        let f: extern "C" fn() -> i32 = std::mem::transmute(sym);
        f().max(0) as u32
    }
}
