//! Server fixtures: an in-process server on its own runtime thread, and a raw blocking client.

use std::{
    io::{Read, Write},
    net::{Shutdown, TcpStream},
    path::Path,
    sync::{
        atomic::{AtomicBool, AtomicU32, Ordering::SeqCst},
        Arc,
    },
    time::{Duration, Instant},
};

use bitcask::storage::bitcask::{Bitcask, Handle};

use crate::{
    gen::StoreCfg,
    resp::{read_reply, F},
    store::open_caught,
};

static PORT_COUNTER: AtomicU32 = AtomicU32::new(0);

fn next_port() -> u16 {
    let pid = std::process::id();
    let c = PORT_COUNTER.fetch_add(1, SeqCst);
    (20000 + ((pid.wrapping_mul(7919).wrapping_add(c.wrapping_mul(13))) % 40000)) as u16
}

pub struct ServerFx {
    pub port: u16,
    pub handle: Handle,
    kv: Option<Bitcask>,
    shutdown_tx: Option<tokio::sync::oneshot::Sender<()>>,
    thread: Option<std::thread::JoinHandle<()>>,
    pub run_returned: Arc<AtomicBool>,
    /// server-side sockets still open when `Server::run` returned (-1: not measured)
    pub open_at_return: Arc<std::sync::atomic::AtomicI64>,
    pub base_threads: usize,
}

/// `min_backoff_ms` of the servers started by this process (the wait after a failed accept);
/// C15 lowers it so that injected accept failures cost milliseconds.
pub static ACCEPT_MIN_BACKOFF_MS: std::sync::atomic::AtomicU64 = std::sync::atomic::AtomicU64::new(500);

/// When set, the server thread counts - at the instant `Server::run` returns, before anything
/// else is dropped - the TCP sockets of this process's server side (local port = server port)
/// that are still open (ESTABLISHED or CLOSE_WAIT); see `ServerFx::open_at_return`.
pub static MEASURE_OPEN_AT_RETURN: AtomicBool = AtomicBool::new(false);

/// Number of TCP sockets that THIS process holds open (a descriptor in /proc/self/fd) whose local
/// port is `port` and whose state in /proc/net/tcp is ESTABLISHED (01) or CLOSE_WAIT (08).  Only
/// the server side of a connection has the server's port as local port; the descriptor test
/// keeps sockets of other processes out (a port number can be taken over by another process's
/// connections, listeners use SO_REUSEADDR).
pub fn open_server_sockets(port: u16) -> i64 {
    let text = match std::fs::read_to_string("/proc/net/tcp") {
        Ok(t) => t,
        Err(_) => return -1,
    };
    let want = format!(":{:04X}", port);
    let mut inodes: Vec<String> = Vec::new();
    for line in text.lines().skip(1) {
        let f: Vec<&str> = line.split_whitespace().collect();
        if f.len() > 9 && f[1].ends_with(&want) && (f[3] == "01" || f[3] == "08") {
            inodes.push(format!("socket:[{}]", f[9]));
        }
    }
    if inodes.is_empty() {
        return 0;
    }
    let mut n = 0;
    if let Ok(rd) = std::fs::read_dir("/proc/self/fd") {
        for e in rd.flatten() {
            if let Ok(t) = std::fs::read_link(e.path()) {
                let t = t.to_string_lossy().to_string();
                if inodes.iter().any(|i| *i == t) {
                    n += 1;
                    if std::env::var("VH_DEBUG_TCP").is_ok() {
                        eprintln!("[tcp] pid={} port={} fd={:?} {}", std::process::id(), port, e.file_name(), t);
                    }
                }
            }
        }
    }
    n
}

impl ServerFx {
    /// Start a server over a fresh store in `dir`.
    pub fn start(dir: &Path, cfg: &StoreCfg, max_connections: usize, workers: usize) -> Result<ServerFx, String> {
        let base_threads = crate::store::thread_count();
        let kv = open_caught(cfg, dir)?;
        Self::start_with(kv, max_connections, workers, base_threads)
    }

    pub fn start_with(kv: Bitcask, max_connections: usize, workers: usize, base_threads: usize) -> Result<ServerFx, String> {
        let handle = kv.get_handle();
        Self::start_with_storage(kv, handle, max_connections, workers, base_threads)
    }

    /// Like `start_with`, but the server is given `storage` (any `KeyValueStorage`, normally a
    /// wrapper around a handle of `kv`) instead of a plain handle.
    pub fn start_with_storage<KV: bitcask::storage::KeyValueStorage + Sync>(
        kv: Bitcask,
        storage: KV,
        max_connections: usize,
        workers: usize,
        base_threads: usize,
    ) -> Result<ServerFx, String> {
        let handle = kv.get_handle();
        Self::start_inner(Some(kv), handle, storage, max_connections, workers, base_threads)
    }

    /// A server over a handle of a store that somebody else owns (and drops after `stop`).
    /// `base_threads` is the thread count of the process before this call.
    pub fn start_on_handle(handle: Handle, max_connections: usize, workers: usize, base_threads: usize) -> Result<ServerFx, String> {
        let storage = handle.clone();
        Self::start_inner(None, handle, storage, max_connections, workers, base_threads)
    }

    fn start_inner<KV: bitcask::storage::KeyValueStorage + Sync>(
        kv: Option<Bitcask>,
        handle: Handle,
        storage: KV,
        max_connections: usize,
        workers: usize,
        base_threads: usize,
    ) -> Result<ServerFx, String> {
        for _attempt in 0..200 {
            let port = next_port();
            let (ready_tx, ready_rx) = std::sync::mpsc::channel::<Result<(), String>>();
            let (sd_tx, sd_rx) = tokio::sync::oneshot::channel::<()>();
            let returned = Arc::new(AtomicBool::new(false));
            let returned2 = returned.clone();
            let open_at_return = Arc::new(std::sync::atomic::AtomicI64::new(-1));
            let open2 = open_at_return.clone();
            let h2 = storage.clone();
            let th = std::thread::Builder::new()
                .name("vh-server".into())
                .spawn(move || {
                    let rt = tokio::runtime::Builder::new_multi_thread()
                        .worker_threads(workers.max(1))
                        .enable_all()
                        .build()
                        .expect("runtime");
                    rt.block_on(async move {
                        let conf = bitcask::net::Config {
                            host: "127.0.0.1".parse().unwrap(),
                            port,
                            min_backoff_ms: ACCEPT_MIN_BACKOFF_MS.load(SeqCst),
                            max_backoff_ms: 64000,
                            max_connections,
                        };
                        let shutdown = async move {
                            let _ = sd_rx.await;
                        };
                        match conf.async_server(h2, shutdown).await {
                            Ok(server) => {
                                let _ = ready_tx.send(Ok(()));
                                server.run().await;
                                if MEASURE_OPEN_AT_RETURN.load(SeqCst) {
                                    open2.store(open_server_sockets(port), SeqCst);
                                }
                                returned2.store(true, SeqCst);
                            }
                            Err(e) => {
                                let _ = ready_tx.send(Err(e.to_string()));
                            }
                        }
                    });
                    // dropping the runtime waits for blocking tasks
                })
                .map_err(|e| e.to_string())?;
            match ready_rx.recv_timeout(Duration::from_secs(10)) {
                Ok(Ok(())) => {
                    return Ok(ServerFx {
                        port,
                        handle,
                        kv,
                        shutdown_tx: Some(sd_tx),
                        thread: Some(th),
                        run_returned: returned,
                        open_at_return,
                        base_threads,
                    })
                }
                Ok(Err(e)) => {
                    let _ = th.join();
                    if e.contains("in use") || e.contains("Address") {
                        continue;
                    }
                    return Err(format!("server start failed: {}", e));
                }
                Err(_) => return Err("server did not become ready within 10 s".into()),
            }
        }
        Err("no free port found".into())
    }

    pub fn addr(&self) -> String {
        format!("127.0.0.1:{}", self.port)
    }

    /// Fire the shutdown signal.
    pub fn fire_shutdown(&mut self) {
        if let Some(tx) = self.shutdown_tx.take() {
            let _ = tx.send(());
        }
    }

    /// Wait until `Server::run` has returned.
    pub fn wait_returned(&self, timeout: Duration) -> bool {
        let t0 = Instant::now();
        while !self.run_returned.load(SeqCst) {
            if t0.elapsed() > timeout {
                return false;
            }
            std::thread::sleep(Duration::from_micros(200));
        }
        true
    }

    /// Shut down and clean up; returns false if the server thread did not end in time (the
    /// thread is then leaked).
    pub fn stop(mut self, timeout: Duration) -> bool {
        self.fire_shutdown();
        let ok = self.wait_returned(timeout);
        if ok {
            if let Some(t) = self.thread.take() {
                let _ = t.join();
            }
        }
        // (a server on a borrowed handle leaves the store - and the threads the store may have
        // started since - to its owner; the join above already waited for the server's runtime)
        if self.kv.take().is_some() && ok {
            crate::store::wait_bg_exit(self.base_threads);
        }
        ok
    }
}

pub struct RawClient {
    pub stream: TcpStream,
    /// every byte received so far
    pub rx: Vec<u8>,
    /// how far `rx` has been parsed into replies
    pub parsed: usize,
    pub eof: bool,
    pub reset: bool,
}

impl RawClient {
    pub fn connect(addr: &str) -> Result<RawClient, String> {
        let stream = TcpStream::connect(addr).map_err(|e| format!("connect: {}", e))?;
        stream.set_nodelay(true).ok();
        Ok(RawClient {
            stream,
            rx: Vec::new(),
            parsed: 0,
            eof: false,
            reset: false,
        })
    }

    pub fn send(&mut self, b: &[u8]) -> Result<(), String> {
        self.stream.write_all(b).map_err(|e| format!("send: {}", e))
    }

    pub fn send_segments(&mut self, segs: &[Vec<u8>], gap_us: u64) -> Result<(), String> {
        for (i, s) in segs.iter().enumerate() {
            if s.is_empty() {
                continue;
            }
            self.send(s)?;
            if gap_us > 0 && i + 1 < segs.len() && segs.len() <= 64 {
                std::thread::sleep(Duration::from_micros(gap_us));
            }
        }
        Ok(())
    }

    /// Read whatever arrives within `wait`; returns the number of new bytes.
    pub fn pump(&mut self, wait: Duration) -> usize {
        if self.eof {
            return 0;
        }
        self.stream.set_read_timeout(Some(wait.max(Duration::from_micros(100)))).ok();
        let mut buf = [0u8; 65536];
        match self.stream.read(&mut buf) {
            Ok(0) => {
                self.eof = true;
                0
            }
            Ok(n) => {
                self.rx.extend_from_slice(&buf[..n]);
                n
            }
            Err(e) => {
                if e.kind() == std::io::ErrorKind::ConnectionReset || e.kind() == std::io::ErrorKind::BrokenPipe {
                    self.eof = true;
                    self.reset = true;
                }
                0
            }
        }
    }

    /// Read until `n` further complete replies have been parsed or the timeout expires.
    pub fn read_replies(&mut self, n: usize, timeout: Duration) -> Result<Vec<F>, String> {
        let t0 = Instant::now();
        let mut out = Vec::new();
        loop {
            while out.len() < n {
                match read_reply(&self.rx[self.parsed..]).map_err(|e| format!("malformed reply bytes: {}", e))? {
                    Some((f, used)) => {
                        out.push(f);
                        self.parsed += used;
                    }
                    None => break,
                }
            }
            if out.len() >= n {
                return Ok(out);
            }
            if self.eof {
                return Err(format!("end of stream after {} of {} replies", out.len(), n));
            }
            if t0.elapsed() > timeout {
                return Err(format!("timeout: {} of {} replies after {:?}", out.len(), n, timeout));
            }
            self.pump(Duration::from_millis(20));
        }
    }

    /// Read until end of stream (or timeout); returns true if the stream ended.
    pub fn read_to_end(&mut self, timeout: Duration) -> bool {
        let t0 = Instant::now();
        while !self.eof && t0.elapsed() < timeout {
            self.pump(Duration::from_millis(20));
        }
        self.eof
    }

    pub fn close(self) {
        let _ = self.stream.shutdown(Shutdown::Both);
    }

    /// Abortive close: SO_LINGER 0 makes close() send RST instead of FIN.
    pub fn abort(self) {
        use std::os::unix::io::AsRawFd;
        let lg = libc::linger { l_onoff: 1, l_linger: 0 };
        unsafe {
            libc::setsockopt(
                self.stream.as_raw_fd(),
                libc::SOL_SOCKET,
                libc::SO_LINGER,
                &lg as *const _ as *const libc::c_void,
                std::mem::size_of::<libc::linger>() as libc::socklen_t,
            );
        }
        drop(self.stream);
    }
}

/// One GET round trip on a fresh connection; used as a liveness probe.
pub fn probe(addr: &str, key: &[u8], timeout: Duration) -> Result<F, String> {
    let mut c = RawClient::connect(addr)?;
    c.send(&crate::resp::command(&[b"GET", key]))?;
    let r = c.read_replies(1, timeout)?;
    c.close();
    Ok(r.into_iter().next().unwrap())
}
