//! Generic machinery: property trait, seeded proptest driver with shrinking and replay files,
//! shard children, supervisor, evidence and known-findings handling.

use std::{
    collections::{BTreeMap, BTreeSet},
    fmt::Debug,
    hash::{Hash, Hasher},
    io::Write as _,
    panic::{self, AssertUnwindSafe},
    path::{Path, PathBuf},
    process::{Command, Stdio},
    sync::atomic::{AtomicBool, Ordering},
    time::{Duration, Instant},
};

use proptest::{
    strategy::BoxedStrategy,
    test_runner::{Config, RngAlgorithm, TestCaseError, TestError, TestRng, TestRunner},
};
use serde::{de::DeserializeOwned, Deserialize, Serialize};
use serde_json::{json, Value};

/// Root of the verification tree (evidence, corpus, replays, known findings, build/). `VERIF_DIR`
/// overrides it for background runs from a snapshot.
pub fn verif_dir() -> PathBuf {
    PathBuf::from(std::env::var("VERIF_DIR").unwrap_or_else(|_| "/verif".to_string()))
}

#[derive(Clone, Copy, Debug, PartialEq, Eq)]
pub enum Tier {
    Quick,
    Thorough,
}

impl Tier {
    pub fn name(self) -> &'static str {
        match self {
            Tier::Quick => "quick",
            Tier::Thorough => "thorough",
        }
    }
    pub fn parse(s: &str) -> Option<Tier> {
        match s {
            "quick" => Some(Tier::Quick),
            "thorough" => Some(Tier::Thorough),
            _ => None,
        }
    }
    /// Pick by tier.
    pub fn pick<T>(self, quick: T, thorough: T) -> T {
        match self {
            Tier::Quick => quick,
            Tier::Thorough => thorough,
        }
    }
}

#[derive(Clone, Debug, Serialize, Deserialize)]
pub struct Failure {
    /// Human readable description of what the oracle saw.
    pub msg: String,
    /// Structural signature used to match known findings.
    pub sig: String,
}

/// Result of executing one generated case.
#[derive(Clone, Debug, Default)]
pub struct Outcome {
    pub fail: Option<Failure>,
    /// The case was non-trivial by the property's rule (used when `nt_hashes` is empty).
    pub nontrivial: bool,
    pub labels: Vec<String>,
    /// Number of evaluations this case stands for (crash states, fault runs ...); 0 means 1.
    pub evals: u64,
    /// Hashes of the distinct non-trivial sub cases (crash states, fault sites ...).
    pub nt_hashes: Vec<u64>,
    /// The case could not be decided for a reason that is not a violation (timing, ports).
    pub inconclusive: Option<String>,
    /// Named counters to be summed into the evidence.
    pub counters: Vec<(String, u64)>,
    /// The failing case left the process in a state that cannot continue (threads stuck in the
    /// code under test): report it at once, without shrinking, and end the shard.
    pub fatal: bool,
}

impl Outcome {
    pub fn pass() -> Self {
        Self::default()
    }
    pub fn failed(sig: impl Into<String>, msg: impl Into<String>) -> Self {
        Self {
            fail: Some(Failure {
                msg: msg.into(),
                sig: sig.into(),
            }),
            ..Self::default()
        }
    }
    pub fn label(&mut self, l: impl Into<String>) {
        self.labels.push(l.into());
    }
    pub fn count(&mut self, name: &str, n: u64) {
        self.counters.push((name.to_string(), n));
    }
    pub fn set_fail(&mut self, sig: impl Into<String>, msg: impl Into<String>) {
        if self.fail.is_none() {
            self.fail = Some(Failure {
                msg: msg.into(),
                sig: sig.into(),
            });
        }
    }
}

/// Environment handed to each case execution.
pub struct Env {
    pub tier: Tier,
    /// Private scratch directory of this process (on tmpfs); cases create sub directories.
    pub scratch: PathBuf,
    pub shard: usize,
    /// True when replaying a single case (more repeats, verbose).
    pub replay: bool,
    pub seed: u64,
    /// where the shard report goes (None when replaying)
    pub out_path: Option<PathBuf>,
}

impl Env {
    /// A fresh empty directory for one case.
    pub fn fresh_dir(&self, name: &str) -> PathBuf {
        let p = self.scratch.join(name);
        let _ = std::fs::remove_dir_all(&p);
        std::fs::create_dir_all(&p).expect("create scratch dir");
        p
    }
}

#[derive(Clone, Debug, Serialize, Deserialize, Default)]
pub struct ViolationRec {
    pub replay: String,
    pub msg: String,
    pub sig: String,
}

#[derive(Clone, Debug, Serialize, Deserialize, Default)]
pub struct ShardReport {
    pub cases: u64,
    pub evaluations: u64,
    pub nt_hashes: Vec<u64>,
    pub labels: BTreeMap<String, u64>,
    pub counters: BTreeMap<String, u64>,
    pub samples: Vec<Value>,
    pub violations: Vec<ViolationRec>,
    /// signature -> hits
    pub known_hits: BTreeMap<String, u64>,
    pub inconclusive: u64,
    pub inconclusive_samples: Vec<String>,
    pub corpus_replayed: u64,
    pub wall_s: f64,
    pub harness_error: Option<String>,
}

pub trait Property: Sync {
    fn id(&self) -> &'static str;
    fn level(&self) -> &'static str;
    fn rule(&self) -> String;
    fn assumptions(&self) -> Vec<String>;
    fn needs_shim(&self) -> bool;
    fn shards(&self, tier: Tier) -> usize;
    fn watchdog_s(&self, tier: Tier) -> u64;
    fn run_shard(&self, env: &Env, nshards: usize, known: &Known) -> ShardReport;
    fn replay(&self, case: &Value, env: &Env) -> Result<Outcome, String>;
    fn replay_repeats(&self) -> u32;
    /// A single case that runs longer than this is a stall (the shard ends with exit code 3).
    fn case_timeout_s(&self) -> u64 {
        match self.id() {
            "C15" | "C18" => 600,
            "C06" | "C10" | "C11" | "C16" | "C17" => 300,
            _ => 180,
        }
    }
}

/// A property defined by a case type, a strategy and an executor.
pub struct Prop<C: 'static> {
    pub id: &'static str,
    pub level: &'static str,
    pub rule: &'static str,
    pub assumptions: &'static [&'static str],
    pub needs_shim: bool,
    /// Total number of generated cases over all shards.
    pub budget: fn(Tier) -> u64,
    pub shards: fn(Tier) -> usize,
    pub strategy: fn(Tier) -> BoxedStrategy<C>,
    pub exec: fn(&C, &Env) -> Outcome,
    pub max_shrink_iters: u32,
    pub replay_repeats: u32,
    pub watchdog_s: fn(Tier) -> u64,
}

pub fn hash64<T: Hash>(t: &T) -> u64 {
    // SipHash with fixed zero keys: stable across runs.
    #[allow(deprecated)]
    let mut h = std::hash::SipHasher::new();
    t.hash(&mut h);
    h.finish()
}

pub fn hash_json<T: Serialize>(t: &T) -> u64 {
    hash64(&serde_json::to_string(t).unwrap_or_default())
}

fn rng_for(seed: u64, id: &str, shard: usize) -> TestRng {
    let mut bytes = [0u8; 32];
    for i in 0..4u64 {
        let h = hash64(&(seed, id, shard as u64, i));
        bytes[(i as usize) * 8..(i as usize + 1) * 8].copy_from_slice(&h.to_le_bytes());
    }
    TestRng::from_seed(RngAlgorithm::ChaCha, &bytes)
}

/// milliseconds since process start at which the running case started (0 = no case running)
static CASE_STARTED_MS: std::sync::atomic::AtomicU64 = std::sync::atomic::AtomicU64::new(0);
static PROCESS_T0: std::sync::OnceLock<Instant> = std::sync::OnceLock::new();

fn now_ms() -> u64 {
    PROCESS_T0.get_or_init(Instant::now).elapsed().as_millis() as u64 + 1
}

/// Watchdog thread of a shard: when one case runs longer than `limit_s`, save it next to the
/// report path and leave with exit code 3 (threads may be stuck inside the code under test).
fn spawn_stall_watchdog(limit_s: u64, current_case: PathBuf, out: PathBuf) {
    std::thread::spawn(move || loop {
        std::thread::sleep(Duration::from_millis(250));
        let st = CASE_STARTED_MS.load(Ordering::SeqCst);
        if st != 0 && now_ms().saturating_sub(st) > limit_s * 1000 {
            let case = std::fs::read_to_string(&current_case).unwrap_or_default();
            let _ = std::fs::write(out.with_extension("stall"), case);
            std::process::exit(3);
        }
    });
}

thread_local! {
    static LAST_PANIC: std::cell::RefCell<Option<String>> = std::cell::RefCell::new(None);
}
static PANIC_VERBOSE: AtomicBool = AtomicBool::new(false);

/// Install a panic hook that remembers message and location per thread and stays quiet.
pub fn install_panic_hook() {
    if std::env::var("VH_VERBOSE").is_ok() {
        PANIC_VERBOSE.store(true, Ordering::Relaxed);
    }
    panic::set_hook(Box::new(|info| {
        let msg = if let Some(s) = info.payload().downcast_ref::<&str>() {
            s.to_string()
        } else if let Some(s) = info.payload().downcast_ref::<String>() {
            s.clone()
        } else {
            "<non-string panic>".to_string()
        };
        let loc = info
            .location()
            .map(|l| format!("{}:{}", l.file(), l.line()))
            .unwrap_or_default();
        let text = format!("{} at {}", msg, loc);
        if PANIC_VERBOSE.load(Ordering::Relaxed) {
            eprintln!("[panic] {}", text);
        }
        LAST_PANIC.with(|p| *p.borrow_mut() = Some(text));
    }));
}

/// Take the last panic text recorded on this thread.
pub fn take_panic() -> Option<String> {
    LAST_PANIC.with(|p| p.borrow_mut().take())
}

/// Run `f`, converting a panic into `Err(panic text)`.
pub fn catch<T>(f: impl FnOnce() -> T) -> Result<T, String> {
    let _ = take_panic();
    match panic::catch_unwind(AssertUnwindSafe(f)) {
        Ok(v) => Ok(v),
        Err(_) => Err(take_panic().unwrap_or_else(|| "panic".to_string())),
    }
}

/// Normalise a panic text to something usable inside a signature: source file and line.
pub fn panic_site(text: &str) -> String {
    match text.rfind(" at ") {
        Some(i) => {
            let loc = &text[i + 4..];
            // keep path relative to the crate
            let loc = loc.rsplit("/repo/").next().unwrap_or(loc);
            loc.to_string()
        }
        None => "unknown".to_string(),
    }
}

// ---------------------------------------------------------------------------------------------
// Known findings

#[derive(Clone, Debug, Default)]
pub struct Known {
    /// (property, signature, what)
    pub entries: Vec<(String, String, String)>,
}

impl Known {
    pub fn load() -> Known {
        let mut k = Known::default();
        let p = verif_dir().join("known_findings.txt");
        if let Ok(text) = std::fs::read_to_string(p) {
            for line in text.lines() {
                let line = line.trim();
                // known: property=<id> signature=<sig> <what fails>
                if let Some(rest) = line.strip_prefix("known:") {
                    let mut prop = None;
                    let mut sig = None;
                    let mut what = Vec::new();
                    for tok in rest.split_whitespace() {
                        if prop.is_none() && tok.starts_with("property=") {
                            prop = Some(tok["property=".len()..].to_string());
                        } else if sig.is_none() && tok.starts_with("signature=") {
                            sig = Some(tok["signature=".len()..].to_string());
                        } else {
                            what.push(tok);
                        }
                    }
                    if let (Some(p), Some(s)) = (prop, sig) {
                        k.entries.push((p, s, what.join(" ")));
                    }
                }
            }
        }
        k
    }
    pub fn matches(&self, prop: &str, sig: &str) -> Option<&str> {
        self.entries
            .iter()
            .find(|(p, s, _)| p == prop && s == sig)
            .map(|(_, _, w)| w.as_str())
    }
}

// ---------------------------------------------------------------------------------------------
// Case files

#[derive(Serialize, Deserialize)]
pub struct CaseFile {
    pub property: String,
    pub case: Value,
    #[serde(default)]
    pub seed: u64,
    #[serde(default)]
    pub msg: String,
    #[serde(default)]
    pub sig: String,
    #[serde(default)]
    pub note: String,
}

pub fn write_replay(id: &str, case: &Value, seed: u64, f: &Failure) -> String {
    let dir = verif_dir().join("replays").join(id);
    let _ = std::fs::create_dir_all(&dir);
    let h = hash64(&serde_json::to_string(case).unwrap_or_default());
    let path = dir.join(format!("{:016x}.json", h));
    let cf = CaseFile {
        property: id.to_string(),
        case: case.clone(),
        seed,
        msg: f.msg.clone(),
        sig: f.sig.clone(),
        note: String::new(),
    };
    let _ = std::fs::write(&path, serde_json::to_string_pretty(&cf).unwrap());
    path.to_string_lossy().to_string()
}

fn truncate_sample(v: Value) -> Value {
    let s = serde_json::to_string(&v).unwrap_or_default();
    if s.len() > 3000 {
        let mut cut = 3000;
        while !s.is_char_boundary(cut) {
            cut -= 1;
        }
        Value::String(format!("{}… ({} bytes of JSON)", &s[..cut], s.len()))
    } else {
        v
    }
}

// ---------------------------------------------------------------------------------------------
// Driver

struct Acc {
    rep: ShardReport,
    nt: BTreeSet<u64>,
    stop_counting: bool,
    last_fail: Option<(Value, Failure)>,
}

impl Acc {
    fn absorb(&mut self, id: &str, case_json: &Value, out: &Outcome, known: &Known) -> bool {
        // returns true when the case is a (non tolerated) failure
        let mut is_fail = false;
        let mut tolerated = false;
        if let Some(f) = &out.fail {
            if known.matches(id, &f.sig).is_some() {
                tolerated = true;
                if !self.stop_counting {
                    *self.rep.known_hits.entry(f.sig.clone()).or_default() += 1;
                }
            } else {
                is_fail = true;
                self.last_fail = Some((case_json.clone(), f.clone()));
            }
        }
        if self.stop_counting {
            return is_fail;
        }
        self.rep.cases += 1;
        self.rep.evaluations += out.evals.max(1);
        if let Some(why) = &out.inconclusive {
            self.rep.inconclusive += 1;
            if self.rep.inconclusive_samples.len() < 5 {
                self.rep.inconclusive_samples.push(why.clone());
            }
        }
        for l in &out.labels {
            *self.rep.labels.entry(l.clone()).or_default() += 1;
        }
        for (k, n) in &out.counters {
            *self.rep.counters.entry(k.clone()).or_default() += n;
        }
        if tolerated {
            *self.rep.labels.entry("tolerated-known-finding".into()).or_default() += 1;
        }
        let case_hash = hash64(&serde_json::to_string(case_json).unwrap_or_default());
        if !out.nt_hashes.is_empty() {
            for h in &out.nt_hashes {
                self.nt.insert(hash64(&(case_hash, *h)));
            }
        } else if out.nontrivial {
            self.nt.insert(case_hash);
        }
        if (out.nontrivial || !out.nt_hashes.is_empty()) && self.rep.samples.len() < 3 {
            self.rep.samples.push(truncate_sample(case_json.clone()));
        }
        if is_fail {
            self.stop_counting = true;
        }
        is_fail
    }
}

impl<C> Prop<C>
where
    C: Serialize + DeserializeOwned + Debug + Clone + 'static,
{
    fn exec_caught(&self, c: &C, env: &Env) -> Outcome {
        match catch(|| (self.exec)(c, env)) {
            Ok(o) => o,
            Err(p) => Outcome::failed(
                format!("harness-panic:{}", panic_site(&p)),
                format!("unexpected panic escaped the case executor: {}", p),
            ),
        }
    }
}

impl<C> Property for Prop<C>
where
    C: Serialize + DeserializeOwned + Debug + Clone + 'static,
{
    fn id(&self) -> &'static str {
        self.id
    }
    fn level(&self) -> &'static str {
        self.level
    }
    fn rule(&self) -> String {
        self.rule.to_string()
    }
    fn assumptions(&self) -> Vec<String> {
        self.assumptions.iter().map(|s| s.to_string()).collect()
    }
    fn needs_shim(&self) -> bool {
        self.needs_shim
    }
    fn shards(&self, tier: Tier) -> usize {
        (self.shards)(tier)
    }
    fn watchdog_s(&self, tier: Tier) -> u64 {
        (self.watchdog_s)(tier)
    }
    fn replay_repeats(&self) -> u32 {
        self.replay_repeats
    }

    fn replay(&self, case: &Value, env: &Env) -> Result<Outcome, String> {
        let c: C = serde_json::from_value(case.clone()).map_err(|e| format!("bad case file: {}", e))?;
        Ok(self.exec_caught(&c, env))
    }

    fn run_shard(&self, env: &Env, nshards: usize, known: &Known) -> ShardReport {
        let t0 = Instant::now();
        let mut acc = Acc {
            rep: ShardReport::default(),
            nt: BTreeSet::new(),
            stop_counting: false,
            last_fail: None,
        };

        // Shard 0 replays the committed corpus first.
        if env.shard == 0 {
            let dir = verif_dir().join("corpus").join(self.id);
            let mut files: Vec<PathBuf> = std::fs::read_dir(&dir)
                .map(|rd| rd.filter_map(|e| e.ok()).map(|e| e.path()).collect())
                .unwrap_or_default();
            files.sort();
            for f in files {
                if f.extension().and_then(|e| e.to_str()) != Some("json") {
                    continue;
                }
                let text = match std::fs::read_to_string(&f) {
                    Ok(t) => t,
                    Err(_) => continue,
                };
                let cf: CaseFile = match serde_json::from_str(&text) {
                    Ok(c) => c,
                    Err(e) => {
                        acc.rep.harness_error = Some(format!("corpus file {:?}: {}", f, e));
                        continue;
                    }
                };
                let c: C = match serde_json::from_value(cf.case.clone()) {
                    Ok(c) => c,
                    Err(e) => {
                        acc.rep.harness_error = Some(format!("corpus file {:?}: {}", f, e));
                        continue;
                    }
                };
                acc.rep.corpus_replayed += 1;
                let mut out = Outcome::pass();
                for _ in 0..self.replay_repeats.max(1) {
                    out = self.exec_caught(&c, env);
                    if out.fail.is_some() {
                        break;
                    }
                }
                out.labels.push("corpus".into());
                let failed = acc.absorb(self.id, &cf.case, &out, known);
                if failed {
                    let fl = out.fail.clone().unwrap();
                    // the corpus file itself is the replay
                    acc.rep.violations.push(ViolationRec {
                        replay: f.to_string_lossy().to_string(),
                        msg: fl.msg,
                        sig: fl.sig,
                    });
                    acc.stop_counting = false;
                }
            }
        }

        let total = (self.budget)(env.tier);
        let per = total / nshards as u64 + u64::from((env.shard as u64) < total % nshards as u64);
        if per > 0 {
            let config = Config {
                cases: per as u32,
                failure_persistence: None,
                max_shrink_iters: self.max_shrink_iters,
                // shrinking is bounded in time as well: cases that fail by running into a bound
                // (a missing reply, a hang) take seconds each
                max_shrink_time: env.tier.pick(45_000, 240_000),
                max_global_rejects: 65536,
                ..Config::default()
            };
            let mut runner = TestRunner::new_with_rng(config, rng_for(env.seed, self.id, env.shard));
            let strategy = (self.strategy)(env.tier);
            let current_path = env.scratch.join("current-case.json");
            if let Some(op) = &env.out_path {
                spawn_stall_watchdog(self.case_timeout_s(), current_path.clone(), op.clone());
            }
            let accr = std::cell::RefCell::new(&mut acc);
            let result = runner.run(&strategy, |c| {
                let cj = serde_json::to_value(&c).unwrap_or(Value::Null);
                if env.shard < 16 {
                    // side file: lets the supervisor name the case if this process dies
                    let _ = std::fs::write(&current_path, serde_json::to_string(&cj).unwrap_or_default());
                }
                CASE_STARTED_MS.store(now_ms(), Ordering::SeqCst);
                let out = self.exec_caught(&c, env);
                CASE_STARTED_MS.store(0, Ordering::SeqCst);
                let failed = accr.borrow_mut().absorb(self.id, &cj, &out, known);
                if failed && out.fatal {
                    let mut a = accr.borrow_mut();
                    let fl = out.fail.clone().unwrap();
                    let path = write_replay(self.id, &cj, env.seed, &fl);
                    a.rep.violations.push(ViolationRec {
                        replay: path,
                        msg: fl.msg,
                        sig: fl.sig,
                    });
                    a.rep.nt_hashes = a.nt.iter().copied().collect();
                    a.rep.wall_s = t0.elapsed().as_secs_f64();
                    if let Some(op) = &env.out_path {
                        let _ = std::fs::write(op, serde_json::to_string(&a.rep).unwrap());
                    }
                    let _ = std::fs::remove_dir_all(&env.scratch);
                    std::process::exit(0);
                }
                if failed {
                    Err(TestCaseError::fail(out.fail.unwrap().msg))
                } else {
                    Ok(())
                }
            });
            drop(accr);
            match result {
                Ok(()) => {}
                Err(TestError::Fail(_reason, minimal)) => {
                    let cj = serde_json::to_value(&minimal).unwrap_or(Value::Null);
                    // re-run the minimal case to obtain its message and signature
                    let mut fl = None;
                    for _ in 0..self.replay_repeats.max(1) {
                        let out = self.exec_caught(&minimal, env);
                        if let Some(f) = out.fail {
                            if known.matches(self.id, &f.sig).is_none() {
                                fl = Some(f);
                                break;
                            }
                        }
                    }
                    let (case_json, fl) = match fl {
                        Some(f) => (cj, f),
                        None => acc.last_fail.clone().unwrap_or((
                            cj,
                            Failure {
                                msg: "failure did not reproduce".into(),
                                sig: "unreproducible".into(),
                            },
                        )),
                    };
                    let path = write_replay(self.id, &case_json, env.seed, &fl);
                    acc.rep.violations.push(ViolationRec {
                        replay: path,
                        msg: fl.msg,
                        sig: fl.sig,
                    });
                }
                Err(TestError::Abort(reason)) => {
                    acc.rep.harness_error = Some(format!("proptest aborted: {}", reason));
                }
            }
            let _ = std::fs::remove_file(&current_path);
        }
        acc.rep.nt_hashes = acc.nt.into_iter().collect();
        acc.rep.wall_s = t0.elapsed().as_secs_f64();
        acc.rep
    }
}

// ---------------------------------------------------------------------------------------------
// Scratch

pub fn make_scratch(tag: &str) -> PathBuf {
    let base = if Path::new("/dev/shm").is_dir() {
        PathBuf::from("/dev/shm")
    } else {
        std::env::temp_dir()
    };
    let p = base.join(format!("vh-{}-{}", std::process::id(), tag));
    let _ = std::fs::remove_dir_all(&p);
    std::fs::create_dir_all(&p).expect("create scratch");
    p
}

// ---------------------------------------------------------------------------------------------
// Supervisor

pub fn seed_from_env() -> u64 {
    std::env::var("VERIF_SEED")
        .ok()
        .and_then(|s| s.trim().parse::<i64>().ok())
        .map(|v| v as u64)
        .unwrap_or(1)
}

pub fn supervise(prop: &dyn Property, tier: Tier, seed: u64) -> i32 {
    let t0 = Instant::now();
    let id = prop.id();
    let nshards = prop.shards(tier).max(1);
    let exe = std::env::current_exe().expect("current exe");
    let scratch = make_scratch(&format!("sup-{}", id));
    let shim = verif_dir().join("build/libvshim.so");
    let known = Known::load();

    let mut children = Vec::new();
    for s in 0..nshards {
        let out = scratch.join(format!("shard-{}.json", s));
        let mut cmd = Command::new(&exe);
        cmd.arg("shard")
            .arg(id)
            .arg(tier.name())
            .arg(seed.to_string())
            .arg(s.to_string())
            .arg(nshards.to_string())
            .arg(&out)
            .stdin(Stdio::null())
            .stdout(Stdio::inherit())
            .stderr(Stdio::inherit());
        if prop.needs_shim() {
            cmd.env("LD_PRELOAD", &shim);
        }
        match cmd.spawn() {
            Ok(ch) => children.push((s, ch, out, None::<std::process::ExitStatus>)),
            Err(e) => {
                eprintln!("cannot spawn shard: {}", e);
                return 2;
            }
        }
    }

    let deadline = Instant::now() + Duration::from_secs(prop.watchdog_s(tier));
    let mut timed_out = false;
    loop {
        let mut running = 0;
        for (_, ch, _, st) in children.iter_mut() {
            if st.is_none() {
                match ch.try_wait() {
                    Ok(Some(s)) => *st = Some(s),
                    Ok(None) => running += 1,
                    Err(_) => running += 1,
                }
            }
        }
        if running == 0 {
            break;
        }
        if Instant::now() > deadline {
            timed_out = true;
            for (_, ch, _, st) in children.iter_mut() {
                if st.is_none() {
                    let _ = ch.kill();
                    let _ = ch.wait();
                }
            }
            break;
        }
        std::thread::sleep(Duration::from_millis(20));
    }

    let mut total = ShardReport::default();
    let mut nt: BTreeSet<u64> = BTreeSet::new();
    let mut harness_errors: Vec<String> = Vec::new();
    if timed_out {
        harness_errors.push(format!(
            "watchdog: shards still running after {} s were killed (inconclusive, not a violation)",
            prop.watchdog_s(tier)
        ));
    }
    for (s, _ch, out, st) in children.iter() {
        let rep: Option<ShardReport> = std::fs::read_to_string(out)
            .ok()
            .and_then(|t| serde_json::from_str(&t).ok());
        match rep {
            Some(r) => {
                total.cases += r.cases;
                total.evaluations += r.evaluations;
                total.inconclusive += r.inconclusive;
                total.corpus_replayed += r.corpus_replayed;
                for h in r.nt_hashes {
                    nt.insert(h);
                }
                for (k, v) in r.labels {
                    *total.labels.entry(k).or_default() += v;
                }
                for (k, v) in r.counters {
                    *total.counters.entry(k).or_default() += v;
                }
                for (k, v) in r.known_hits {
                    *total.known_hits.entry(k).or_default() += v;
                }
                for smp in r.samples {
                    if total.samples.len() < 4 {
                        total.samples.push(smp);
                    }
                }
                for i in r.inconclusive_samples {
                    if total.inconclusive_samples.len() < 5 {
                        total.inconclusive_samples.push(i);
                    }
                }
                total.violations.extend(r.violations);
                if let Some(e) = r.harness_error {
                    harness_errors.push(format!("shard {}: {}", s, e));
                }
            }
            None if out.with_extension("stall").exists() => {
                let text = std::fs::read_to_string(out.with_extension("stall")).unwrap_or_default();
                let case: Value = serde_json::from_str(&text).unwrap_or(Value::Null);
                let fl = Failure {
                    sig: "case-stalled".into(),
                    msg: format!("one case ran longer than {} s and was abandoned (inconclusive, not a violation)", prop.case_timeout_s()),
                };
                let path = write_replay(id, &case, seed, &fl);
                harness_errors.push(format!("shard {}: a case stalled for more than {} s; it is saved as {}", s, prop.case_timeout_s(), path));
            }
            None => {
                use std::os::unix::process::ExitStatusExt;
                let sig = st.and_then(|x| x.signal());
                let child_scratch = if Path::new("/dev/shm").is_dir() {
                    PathBuf::from("/dev/shm")
                } else {
                    std::env::temp_dir()
                }
                .join(format!("vh-{}-{}-{}", _ch.id(), id, s));
                let cur = child_scratch.join("current-case.json");
                let case: Option<Value> = std::fs::read_to_string(&cur).ok().and_then(|t| serde_json::from_str(&t).ok());
                match (sig, case) {
                    (Some(sg), Some(case)) if sg != 9 => {
                        // the process running the code under test was terminated by a signal
                        // (abort, stack overflow, failed allocation ...) while executing this case
                        let fl = Failure {
                            sig: format!("process-died:signal-{}", sg),
                            msg: format!("the process executing this case was terminated by signal {} (abort / stack overflow / failed allocation in the code under test)", sg),
                        };
                        let path = write_replay(id, &case, seed, &fl);
                        total.violations.push(ViolationRec {
                            replay: path,
                            msg: fl.msg,
                            sig: fl.sig,
                        });
                    }
                    _ => {
                        if !timed_out || st.is_some() {
                            harness_errors.push(format!("shard {} produced no report (exit status {:?})", s, st));
                        }
                    }
                }
                let _ = std::fs::remove_dir_all(&child_scratch);
            }
        }
    }
    let wall = t0.elapsed().as_secs_f64();

    for (sig, hits) in &total.known_hits {
        let what = known.matches(id, sig).unwrap_or("");
        println!(
            "KNOWN-FINDING: property={} signature={} hits={} {}",
            id, sig, hits, what
        );
    }
    {
        let mut seen = BTreeSet::new();
        total.violations.retain(|v| seen.insert(v.replay.clone()));
    }
    for v in &total.violations {
        println!("VIOLATION property={} replay={}", id, v.replay);
        println!("  signature: {}", v.sig);
        println!("  {}", v.msg.replace('\n', "\n  "));
    }
    for e in &harness_errors {
        println!("HARNESS-ERROR property={} {}", id, e);
    }

    let mut samples = total.samples.clone();
    if samples.is_empty() {
        samples.push(json!("no non-trivial case was generated in this run"));
    }
    let evidence = json!({
        "property_id": id,
        "tier": tier.name(),
        "seed": seed as i64,
        "level": prop.level(),
        "coverage": {
            "evaluations": total.evaluations,
            "distinct_nontrivial": nt.len(),
            "rule": prop.rule(),
            "samples": samples,
            "cases_generated": total.cases,
            "corpus_cases_replayed": total.corpus_replayed,
            "labels": total.labels,
            "counters": total.counters,
            "known_finding_hits": total.known_hits,
            "inconclusive_cases": total.inconclusive,
            "inconclusive_samples": total.inconclusive_samples,
            "shards": nshards,
            "exhaustive": false,
            "harness_errors": harness_errors,
        },
        "assumptions": prop.assumptions(),
        "wall_s": wall,
        "violations": total.violations.len(),
    });
    let evdir = verif_dir().join("evidence");
    let _ = std::fs::create_dir_all(&evdir);
    let evpath = evdir.join(format!("{}.json", id));
    let mut f = std::fs::File::create(&evpath).expect("evidence file");
    let _ = f.write_all(serde_json::to_string_pretty(&evidence).unwrap().as_bytes());
    let _ = f.write_all(b"\n");

    println!(
        "{} {}: cases={} evaluations={} distinct_nontrivial={} violations={} known_hits={} inconclusive={} wall={:.1}s",
        id,
        tier.name(),
        total.cases,
        total.evaluations,
        nt.len(),
        total.violations.len(),
        total.known_hits.values().sum::<u64>(),
        total.inconclusive,
        wall
    );
    let _ = std::fs::remove_dir_all(&scratch);
    if !total.violations.is_empty() {
        1
    } else if !harness_errors.is_empty() {
        2
    } else {
        0
    }
}

pub fn run_shard_main(prop: &dyn Property, tier: Tier, seed: u64, shard: usize, nshards: usize, out: &Path) -> i32 {
    install_panic_hook();
    let scratch = make_scratch(&format!("{}-{}", prop.id(), shard));
    let env = Env {
        tier,
        scratch: scratch.clone(),
        shard,
        replay: false,
        seed,
        out_path: Some(out.to_path_buf()),
    };
    if prop.needs_shim() && !crate::shim::present() {
        let rep = ShardReport {
            harness_error: Some("LD_PRELOAD shim not loaded".into()),
            ..Default::default()
        };
        let _ = std::fs::write(out, serde_json::to_string(&rep).unwrap());
        return 2;
    }
    let known = Known::load();
    let rep = prop.run_shard(&env, nshards, &known);
    let _ = std::fs::write(out, serde_json::to_string(&rep).unwrap());
    let _ = std::fs::remove_dir_all(&scratch);
    0
}

pub fn replay_main(props: &[&dyn Property], path: &Path) -> i32 {
    install_panic_hook();
    let text = match std::fs::read_to_string(path) {
        Ok(t) => t,
        Err(e) => {
            eprintln!("cannot read {:?}: {}", path, e);
            return 2;
        }
    };
    let cf: CaseFile = match serde_json::from_str(&text) {
        Ok(c) => c,
        Err(e) => {
            eprintln!("bad case file: {}", e);
            return 2;
        }
    };
    let prop = match props.iter().find(|p| p.id() == cf.property) {
        Some(p) => *p,
        None => {
            eprintln!("unknown property {}", cf.property);
            return 2;
        }
    };
    if prop.needs_shim() && !crate::shim::present() {
        // re-exec under the shim
        let exe = std::env::current_exe().unwrap();
        let st = Command::new(exe)
            .arg("replay")
            .arg(path)
            .env("LD_PRELOAD", verif_dir().join("build/libvshim.so"))
            .env("VH_REEXEC", "1")
            .status();
        return st.ok().and_then(|s| s.code()).unwrap_or(2);
    }
    let scratch = make_scratch("replay");
    let env = Env {
        tier: Tier::Quick,
        scratch: scratch.clone(),
        shard: 0,
        replay: true,
        seed: cf.seed,
        out_path: None,
    };
    let known = Known::load();
    let mut code = 0;
    for i in 0..prop.replay_repeats().max(1) {
        match prop.replay(&cf.case, &env) {
            Ok(out) => {
                if let Some(f) = out.fail {
                    if let Some(what) = known.matches(prop.id(), &f.sig) {
                        println!("KNOWN-FINDING: property={} signature={} {}", prop.id(), f.sig, what);
                    } else {
                        println!("VIOLATION property={} replay={}", prop.id(), path.display());
                        println!("  signature: {}", f.sig);
                        println!("  {}", f.msg.replace('\n', "\n  "));
                        println!("  (attempt {})", i + 1);
                        code = 1;
                    }
                    break;
                }
                if let Some(why) = out.inconclusive {
                    println!("inconclusive: {}", why);
                }
            }
            Err(e) => {
                eprintln!("{}", e);
                code = 2;
                break;
            }
        }
    }
    if code == 0 {
        println!("replay of {} passed ({} attempt(s))", path.display(), prop.replay_repeats().max(1));
    }
    let _ = std::fs::remove_dir_all(&scratch);
    code
}
