//! Store driver: open a store from a generated configuration, and the history interpreter that
//! runs a generated history against the real store and the reference model in lock step.

use std::{
    collections::{BTreeMap, BTreeSet},
    path::{Path, PathBuf},
};

use bitcask::storage::{
    bitcask::{Bitcask, Config, Error, Handle, VerifDump},
    KeyValueStorage,
};
use bytes::Bytes;

use crate::{
    diskfmt::{self, DirScan},
    engine::{catch, panic_site, Failure},
    gen::{key_bytes, pick, val_bytes, Hist, Op, StoreCfg},
};

pub type Model = BTreeMap<Vec<u8>, Vec<u8>>;

pub fn config_json(cfg: &StoreCfg, path: &Path, extra_merge: Option<serde_json::Value>, sync: Option<serde_json::Value>) -> Config {
    let mut merge = serde_json::json!({
        "policy": "never",
        "thresholds": {
            "fragmentation": cfg.frag,
            "dead_bytes": cfg.dead_bytes,
            "small_file": cfg.small_file,
        },
    });
    if let Some(serde_json::Value::Object(m)) = extra_merge {
        for (k, v) in m {
            merge[k] = v;
        }
    }
    let sync = sync.unwrap_or_else(|| {
        if cfg.sync_always {
            serde_json::json!("always")
        } else if cfg.sync_interval_ms > 0 {
            serde_json::json!({ "interval_ms": cfg.sync_interval_ms })
        } else {
            serde_json::json!("none")
        }
    });
    let j = serde_json::json!({
        "path": path.to_string_lossy(),
        "concurrency": cfg.concurrency,
        "readers_cache_size": cfg.readers_cache,
        "max_file_size": cfg.max_file_size,
        "sync": sync,
        "merge": merge,
    });
    if CONFIG_VIA_SETTERS.load(std::sync::atomic::Ordering::SeqCst) {
        return config_via_setters(&j);
    }
    serde_json::from_value(j).expect("store configuration must deserialize")
}

/// When set (C18 does, per case), `config_json` builds its result with the setter API of
/// `Config` instead of deserializing it - the other documented way to configure a store.
pub static CONFIG_VIA_SETTERS: std::sync::atomic::AtomicBool = std::sync::atomic::AtomicBool::new(false);

/// The configuration `j` describes, built with `Config::default()` and the public setters.  Only
/// the merge policy comes through serde (its type is not exported, a user of the setter API
/// keeps the default or reads it from a file); everything else present in `j` goes through its
/// setter, everything absent keeps the default - as it does when deserialized.
pub fn config_via_setters(j: &serde_json::Value) -> Config {
    use bitcask::storage::bitcask::SyncStrategy;
    let mut c: Config = match j["merge"].get("policy") {
        Some(p) => serde_json::from_value(serde_json::json!({ "merge": { "policy": p } })).expect("policy must deserialize"),
        None => Config::default(),
    };
    if let Some(p) = j["path"].as_str() {
        c.path(p);
    }
    if let Some(n) = j["concurrency"].as_u64() {
        c.concurrency(n as usize);
    }
    if let Some(n) = j["readers_cache_size"].as_u64() {
        c.readers_cache_size(n as usize);
    }
    if let Some(n) = j["max_file_size"].as_u64() {
        c.max_file_size(n);
    }
    match &j["sync"] {
        serde_json::Value::String(s) if s == "always" => {
            c.sync(SyncStrategy::Always);
        }
        serde_json::Value::String(s) if s == "none" => {
            c.sync(SyncStrategy::None);
        }
        serde_json::Value::Object(m) => {
            if let Some(n) = m.get("interval_ms").and_then(|v| v.as_u64()) {
                c.sync(SyncStrategy::IntervalMs(n));
            }
        }
        _ => {}
    }
    let m = &j["merge"];
    if let Some(x) = m["triggers"].get("fragmentation").and_then(|v| v.as_f64()) {
        c.merge_trigger_fragmentation(x);
    }
    if let Some(x) = m["triggers"].get("dead_bytes").and_then(|v| v.as_u64()) {
        c.merge_trigger_dead_bytes(x);
    }
    if let Some(x) = m["thresholds"].get("fragmentation").and_then(|v| v.as_f64()) {
        c.merge_threshold_fragmentation(x);
    }
    if let Some(x) = m["thresholds"].get("dead_bytes").and_then(|v| v.as_u64()) {
        c.merge_threshold_dead_bytes(x);
    }
    if let Some(x) = m["thresholds"].get("small_file").and_then(|v| v.as_u64()) {
        c.merge_threshold_small_file(x);
    }
    if let Some(x) = m.get("check_interval_ms").and_then(|v| v.as_u64()) {
        c.merge_check_interval_ms(x);
    }
    if let Some(x) = m.get("check_jitter").and_then(|v| v.as_f64()) {
        c.merge_check_jitter(x);
    }
    c
}

/// Both builds of the same settings, rendered with `Debug` (the fields are private).
pub fn config_both_debug(cfg: &StoreCfg, path: &Path, extra_merge: Option<serde_json::Value>, sync: Option<serde_json::Value>) -> (String, String) {
    let was = CONFIG_VIA_SETTERS.swap(false, std::sync::atomic::Ordering::SeqCst);
    let a = format!("{:?}", config_json(cfg, path, extra_merge.clone(), sync.clone()));
    CONFIG_VIA_SETTERS.store(true, std::sync::atomic::Ordering::SeqCst);
    let b = format!("{:?}", config_json(cfg, path, extra_merge, sync));
    CONFIG_VIA_SETTERS.store(was, std::sync::atomic::Ordering::SeqCst);
    (a, b)
}

/// Number of live threads of this process whose name starts with `prefix` (comm is cut to 15 bytes).
pub fn threads_named(prefix: &str) -> usize {
    let p15 = &prefix[..prefix.len().min(15)];
    let mut n = 0;
    if let Ok(rd) = std::fs::read_dir("/proc/self/task") {
        for e in rd.filter_map(|e| e.ok()) {
            if let Ok(c) = std::fs::read_to_string(e.path().join("comm")) {
                if c.trim_end().starts_with(p15) {
                    n += 1;
                }
            }
        }
    }
    n
}

/// Thread ids of the live threads of this process whose name starts with `prefix`.
pub fn tids_named(prefix: &str) -> Vec<u64> {
    let p15 = &prefix[..prefix.len().min(15)];
    let mut v = Vec::new();
    if let Ok(rd) = std::fs::read_dir("/proc/self/task") {
        for e in rd.filter_map(|e| e.ok()) {
            if let Ok(c) = std::fs::read_to_string(e.path().join("comm")) {
                if c.trim_end().starts_with(p15) {
                    if let Ok(t) = e.file_name().to_string_lossy().parse::<u64>() {
                        v.push(t);
                    }
                }
            }
        }
    }
    v
}

pub fn tid_alive(tid: u64) -> bool {
    std::path::Path::new(&format!("/proc/self/task/{}", tid)).exists()
}

pub fn thread_count() -> usize {
    std::fs::read_dir("/proc/self/task").map(|rd| rd.count()).unwrap_or(0)
}

/// Wait until the background worker of a dropped store is gone, i.e. the process is back to
/// `base` threads (a worker may still flush and close descriptors, which would disturb the
/// recorder and the injector of the next run; a worker that has not started yet does not even
/// carry its name, hence the count).
pub fn wait_bg_exit(base: usize) -> bool {
    let t0 = std::time::Instant::now();
    loop {
        if thread_count() <= base {
            return true;
        }
        if t0.elapsed() > std::time::Duration::from_secs(10) {
            return false;
        }
        std::thread::sleep(std::time::Duration::from_micros(100));
    }
}

pub fn open_store(cfg: &StoreCfg, path: &Path) -> Result<Bitcask, Error> {
    config_json(cfg, path, None, None).open()
}

/// Open, converting a panic into an error string.
pub fn open_caught(cfg: &StoreCfg, path: &Path) -> Result<Bitcask, String> {
    match catch(|| open_store(cfg, path)) {
        Ok(Ok(kv)) => Ok(kv),
        Ok(Err(e)) => Err(format!("open failed: {}", e)),
        Err(p) => Err(format!("open panicked: {}", p)),
    }
}

#[derive(Clone, Copy, Debug, Default)]
pub struct Checks {
    /// compare every result and all pool keys after every mutating op with the map model
    pub model: bool,
    /// compare the per-file accounting and the index with an independent scan of the files (C19)
    pub acct: bool,
    /// size oracles around merges (C13)
    pub size: bool,
    /// differential recovery with and without hint files at every reopen and at the end (C12)
    pub hint: bool,
    /// classify model mismatches after reopen with the `tombstone-dropped` rule (C05)
    pub classify_d2: bool,
}

#[derive(Clone, Debug, Default)]
pub struct HistStats {
    pub sets: u32,
    pub gets: u32,
    pub dels: u32,
    pub dels_present: u32,
    pub merges: u32,
    pub merges_proper_subset: u32,
    pub merges_with_dead: u32,
    pub merges_multi_file: u32,
    pub merge_outputs_rolled: u32,
    pub reopens: u32,
    pub rollovers: u32,
    pub max_files: usize,
    /// read or delete of a key that was overwritten or deleted earlier, with a rollover or a
    /// merge in between (C01's rule)
    pub reread_after_roll_or_merge: u32,
    /// reopen that follows a delete of a present key, or an overwrite whose versions sit in
    /// different files (C02's rule)
    pub reopen_after_del_or_cross_overwrite: u32,
    /// proper-subset merge after a delete/overwrite followed by a reopen (C05's rule)
    pub partial_merge_then_reopen: u32,
    pub hint_files_nonempty_at_close: u32,
    pub post_merge_overwrites_of_merged_keys: u32,
    pub cross_file_overwrites: u32,
    pub big_values: u32,
    pub hint_diffs_checked: u32,
    pub acct_checks: u32,
    pub merges_all_eligible_by_truth: u32,
}

pub struct HistRunner<'a> {
    pub hist: &'a Hist,
    pub dir: PathBuf,
    pub checks: Checks,
    pub keys: Vec<Vec<u8>>,
    pub model: Model,
    pub kv: Option<Bitcask>,
    pub h: Option<Handle>,
    pub stats: HistStats,
    /// key -> (overwritten-or-deleted earlier, rollovers+merges count at that time)
    touched: BTreeMap<Vec<u8>, u32>,
    /// key -> file id of current value as of last set (for cross-file overwrite detection)
    last_file: BTreeMap<Vec<u8>, u64>,
    /// deleted key -> file id that received its last tombstone
    tomb_file: BTreeMap<Vec<u8>, u64>,
    events: u32, // rollovers + merges so far
    pending_del_or_cross: bool,
    pending_partial_merge: bool,
    dirty_since_merge: bool,
    merged_keys: BTreeSet<Vec<u8>>,
    scratch: PathBuf,
}

fn short(b: &[u8]) -> String {
    if b.len() <= 12 {
        format!("{:?}", Bytes::copy_from_slice(b))
    } else {
        format!("{:?}…(len {})", Bytes::copy_from_slice(&b[..12]), b.len())
    }
}

fn show_opt(v: &Option<Vec<u8>>) -> String {
    match v {
        None => "None".to_string(),
        Some(b) => format!("Some({})", short(b)),
    }
}

pub fn fail(sig: impl Into<String>, msg: impl Into<String>) -> Failure {
    Failure {
        sig: sig.into(),
        msg: msg.into(),
    }
}

impl<'a> HistRunner<'a> {
    pub fn new(hist: &'a Hist, dir: PathBuf, scratch: PathBuf, checks: Checks) -> Result<Self, Failure> {
        let keys: Vec<Vec<u8>> = hist.keys.iter().map(key_bytes).collect();
        let mut r = HistRunner {
            hist,
            dir,
            checks,
            keys,
            model: Model::new(),
            kv: None,
            h: None,
            stats: HistStats::default(),
            touched: BTreeMap::new(),
            last_file: BTreeMap::new(),
            tomb_file: BTreeMap::new(),
            events: 0,
            pending_del_or_cross: false,
            pending_partial_merge: false,
            dirty_since_merge: false,
            merged_keys: BTreeSet::new(),
            scratch,
        };
        r.open()?;
        Ok(r)
    }

    fn open(&mut self) -> Result<(), Failure> {
        match open_caught(&self.hist.cfg, &self.dir) {
            Ok(kv) => {
                let h = kv.get_handle();
                // a get on an empty reader pool never returns: report it instead of hanging
                let d = h.verif_dump();
                if d.readers_len == 0 {
                    return Err(fail(
                        "reader-pool-empty",
                        format!("after open (concurrency = {}) the reader pool holds 0 of {} readers: every get would spin forever", self.hist.cfg.concurrency, d.readers_capacity),
                    ));
                }
                self.h = Some(h);
                self.kv = Some(kv);
                Ok(())
            }
            Err(e) => Err(fail("open-failed", e)),
        }
    }

    pub fn handle(&self) -> &Handle {
        self.h.as_ref().expect("store is open")
    }

    pub fn dump(&self) -> VerifDump {
        self.handle().verif_dump()
    }

    pub fn get(&self, key: &[u8]) -> Result<Option<Vec<u8>>, Failure> {
        let h = self.handle().clone();
        let k = Bytes::copy_from_slice(key);
        match catch(move || h.get(k)) {
            Ok(Ok(v)) => Ok(v.map(|b| b.to_vec())),
            Ok(Err(e)) => Err(fail("get-error", format!("get({}) returned an error: {}", short(key), e))),
            Err(p) => Err(fail(
                format!("get-panic:{}", panic_site(&p)),
                format!("get({}) panicked: {}", short(key), p),
            )),
        }
    }

    /// Compare all pool keys with the model.
    pub fn check_all(&self, phase: &str, opi: usize) -> Result<(), Failure> {
        for k in &self.keys {
            let got = self.get(k)?;
            let want = self.model.get(k).cloned();
            if got != want {
                if self.checks.classify_d2 && phase == "after-reopen" {
                    if let Some(f) = self.classify_d2(k, &got, &want, opi) {
                        return Err(f);
                    }
                }
                return Err(fail(
                    format!("model-mismatch:{}", phase),
                    format!(
                        "op #{} ({}): key {} reads {} but the model says {}",
                        opi,
                        phase,
                        short(k),
                        show_opt(&got),
                        show_opt(&want)
                    ),
                ));
            }
        }
        Ok(())
    }

    /// D2 classification (section 7 of DESIGN.md): the key is absent in the model, the store
    /// returns the value an intended recovery of the surviving files yields, and the file that
    /// held the key's last tombstone has been removed.
    fn classify_d2(&self, k: &[u8], got: &Option<Vec<u8>>, want: &Option<Vec<u8>>, opi: usize) -> Option<Failure> {
        if want.is_some() || got.is_none() {
            return None;
        }
        let scan = diskfmt::scan_dir(&self.dir);
        let intended = scan.intended_recovery();
        if intended.get(k) != got.as_ref() {
            return None;
        }
        let tf = self.tomb_file.get(k)?;
        if scan.data.contains_key(tf) {
            return None;
        }
        // no surviving file holds a tombstone of this key that is newer than the value
        Some(fail(
            "tombstone-dropped",
            format!(
                "op #{} (after-reopen): deleted key {} reads {}; its tombstone was in file {} which a merge removed while an older file still holds the value",
                opi,
                short(k),
                show_opt(got),
                tf
            ),
        ))
    }

    fn note_files(&mut self, before: &VerifDump, after: &VerifDump) {
        if after.active_fileid != before.active_fileid {
            self.stats.rollovers += 1;
            self.events += 1;
        }
    }

    /// Apply one operation to the store and the model; `Err` is an oracle failure.
    pub fn apply(&mut self, opi: usize, op: &Op) -> Result<(), Failure> {
        let n = self.keys.len();
        match op {
            Op::Set(ki, vs) => {
                let key = self.keys[pick(*ki, n)].clone();
                let val = val_bytes(vs, opi as u64);
                self.stats.sets += 1;
                if val.len() + key.len() + 25 > 8192 {
                    self.stats.big_values += 1;
                }
                let before = self.dump();
                let h = self.handle().clone();
                let (kb, vb) = (Bytes::from(key.clone()), Bytes::from(val.clone()));
                match catch(move || h.set(kb, vb)) {
                    Ok(Ok(())) => {}
                    Ok(Err(e)) => return Err(fail("set-error", format!("op #{}: set({}) failed: {}", opi, short(&key), e))),
                    Err(p) => {
                        return Err(fail(
                            format!("set-panic:{}", panic_site(&p)),
                            format!("op #{}: set({}) panicked: {}", opi, short(&key), p),
                        ))
                    }
                }
                let after = self.dump();
                if self.model.contains_key(&key) {
                    self.touched.entry(key.clone()).or_insert(self.events);
                    if let Some(f) = self.last_file.get(&key) {
                        if *f != before.active_fileid {
                            self.stats.cross_file_overwrites += 1;
                            self.pending_del_or_cross = true;
                        }
                    }
                    self.dirty_since_merge = true;
                    if self.merged_keys.contains(&key) {
                        self.stats.post_merge_overwrites_of_merged_keys += 1;
                    }
                }
                self.last_file.insert(key.clone(), before.active_fileid);
                self.tomb_file.remove(&key);
                self.model.insert(key, val);
                self.note_files(&before, &after);
                if self.checks.model {
                    self.check_all("after-set", opi)?;
                }
            }
            Op::Get(ki) => {
                let key = self.keys[pick(*ki, n)].clone();
                self.stats.gets += 1;
                if let Some(ev) = self.touched.get(&key) {
                    if self.events > *ev {
                        self.stats.reread_after_roll_or_merge += 1;
                    }
                }
                let got = self.get(&key)?;
                if self.checks.model {
                    let want = self.model.get(&key).cloned();
                    if got != want {
                        return Err(fail(
                            "model-mismatch:get",
                            format!(
                                "op #{}: get({}) returned {} but the model says {}",
                                opi,
                                short(&key),
                                show_opt(&got),
                                show_opt(&want)
                            ),
                        ));
                    }
                }
            }
            Op::Del(ki) => {
                let key = self.keys[pick(*ki, n)].clone();
                self.stats.dels += 1;
                if let Some(ev) = self.touched.get(&key) {
                    if self.events > *ev {
                        self.stats.reread_after_roll_or_merge += 1;
                    }
                }
                let before = self.dump();
                let h = self.handle().clone();
                let kb = Bytes::from(key.clone());
                let got = match catch(move || h.del(kb)) {
                    Ok(Ok(b)) => b,
                    Ok(Err(e)) => return Err(fail("del-error", format!("op #{}: del({}) failed: {}", opi, short(&key), e))),
                    Err(p) => {
                        return Err(fail(
                            format!("del-panic:{}", panic_site(&p)),
                            format!("op #{}: del({}) panicked: {}", opi, short(&key), p),
                        ))
                    }
                };
                let after = self.dump();
                let want = self.model.remove(&key).is_some();
                if want {
                    self.stats.dels_present += 1;
                    self.touched.entry(key.clone()).or_insert(self.events);
                    self.pending_del_or_cross = true;
                    self.dirty_since_merge = true;
                    if self.merged_keys.contains(&key) {
                        self.stats.post_merge_overwrites_of_merged_keys += 1;
                    }
                }
                self.tomb_file.insert(key.clone(), before.active_fileid);
                self.last_file.remove(&key);
                self.note_files(&before, &after);
                if self.checks.model {
                    if got != want {
                        return Err(fail(
                            "model-mismatch:del-result",
                            format!("op #{}: del({}) returned {} but the model says {}", opi, short(&key), got, want),
                        ));
                    }
                    self.check_all("after-del", opi)?;
                }
            }
            Op::Merge => self.merge(opi)?,
            Op::Reopen => self.reopen(opi)?,
        }
        if self.checks.acct {
            self.check_accounting(opi)?;
        }
        Ok(())
    }

    fn merge(&mut self, opi: usize) -> Result<(), Failure> {
        self.stats.merges += 1;
        self.events += 1;
        let before = self.dump();
        let scan_before = diskfmt::scan_dir(&self.dir);
        // which files will be selected, by ground truth of the documented rule (strict `>`/`<`)
        let nonempty: BTreeSet<u64> = scan_before
            .data
            .iter()
            .filter(|(_, (e, _, _))| !e.is_empty())
            .map(|(id, _)| *id)
            .collect();
        let reads_before: Vec<Option<Vec<u8>>> = if self.checks.size {
            let mut v = Vec::new();
            for k in &self.keys {
                v.push(self.get(k)?);
            }
            v
        } else {
            Vec::new()
        };
        let h = self.handle().clone();
        match catch(move || h.verif_merge()) {
            Ok(Ok(())) => {}
            Ok(Err(e)) => return Err(fail("merge-error", format!("op #{}: merge failed: {}", opi, e))),
            Err(p) => {
                return Err(fail(
                    format!("merge-panic:{}", panic_site(&p)),
                    format!("op #{}: merge panicked: {}", opi, p),
                ))
            }
        }
        let after = self.dump();
        let scan_after = diskfmt::scan_dir(&self.dir);
        let removed: BTreeSet<u64> = scan_before
            .data
            .keys()
            .filter(|id| !scan_after.data.contains_key(id))
            .copied()
            .collect();
        let removed_nonempty: BTreeSet<u64> = removed.intersection(&nonempty).copied().collect();
        if !removed_nonempty.is_empty() && removed_nonempty.len() < nonempty.len() {
            self.stats.merges_proper_subset += 1;
            if self.dirty_since_merge || self.stats.dels_present > 0 || self.stats.cross_file_overwrites > 0 {
                self.pending_partial_merge = true;
            }
        }
        if removed_nonempty.len() >= 2 {
            self.stats.merges_multi_file += 1;
        }
        let dead_in_removed = before
            .stats
            .iter()
            .filter(|(id, _, d, _)| removed.contains(id) && *d > 0)
            .count();
        if dead_in_removed > 0 {
            self.stats.merges_with_dead += 1;
        }
        let new_nonempty: Vec<u64> = scan_after
            .data
            .iter()
            .filter(|(id, (e, _, _))| !scan_before.data.contains_key(id) && !e.is_empty())
            .map(|(id, _)| *id)
            .collect();
        if new_nonempty.len() >= 2 {
            self.stats.merge_outputs_rolled += 1;
        }
        for (k, fid, _, _) in &after.keydir {
            if new_nonempty.contains(fid) {
                self.merged_keys.insert(k.to_vec());
            }
        }
        self.dirty_since_merge = false;
        self.stats.max_files = self.stats.max_files.max(scan_after.data.len());
        for (k, f) in self.last_file.iter_mut() {
            // values moved by the merge now live in a merge output
            if let Some((_, fid, _, _)) = after.keydir.iter().find(|(kk, _, _, _)| kk.as_ref() == k.as_slice()) {
                *f = *fid;
            }
        }

        if self.checks.model {
            self.check_all("after-merge", opi)?;
        }
        if self.checks.size {
            // eligibility of every non-empty file by ground truth: the documented thresholds
            // (strictly more dead bytes, strictly higher fragmentation, strictly smaller file)
            // applied to an independent scan of the files and the index as it was before the merge
            let cfg = &self.hist.cfg;
            let all_eligible_by_truth = !nonempty.is_empty()
                && nonempty.iter().all(|id| {
                    let (ents, _, size) = &scan_before.data[id];
                    let live_pos: BTreeSet<u64> = before.keydir.iter().filter(|(_, f, _, _)| f == id).map(|(_, _, p, _)| *p).collect();
                    let dead: Vec<&diskfmt::DataEntry> = ents.iter().filter(|e| !live_pos.contains(&e.pos)).collect();
                    let dead_bytes: u64 = dead.iter().map(|e| e.len).sum();
                    let frag = if dead.is_empty() { 0.0 } else { dead.len() as f64 / ents.len() as f64 };
                    dead_bytes > cfg.dead_bytes || frag > cfg.frag || *size < cfg.small_file
                });
            if all_eligible_by_truth && cfg.small_file != u64::MAX {
                self.stats.merges_all_eligible_by_truth += 1;
            }
            self.check_sizes(opi, &scan_before, &scan_after, &reads_before, all_eligible_by_truth)?;
        }
        Ok(())
    }

    fn check_sizes(
        &mut self,
        opi: usize,
        before: &DirScan,
        after: &DirScan,
        reads_before: &[Option<Vec<u8>>],
        all_eligible_by_truth: bool,
    ) -> Result<(), Failure> {
        let (tb, ta) = (before.total_data_size(), after.total_data_size());
        if ta > tb {
            return Err(fail(
                "merge-grew-store",
                format!("op #{}: total size of data files grew from {} to {} bytes across a merge", opi, tb, ta),
            ));
        }
        // reads unchanged by the merge (independent of the model)
        for (i, k) in self.keys.iter().enumerate() {
            let got = self.get(k)?;
            if got != reads_before[i] {
                return Err(fail(
                    "merge-changed-read",
                    format!(
                        "op #{}: key {} read {} before the merge and {} after it",
                        opi,
                        short(k),
                        show_opt(&reads_before[i]),
                        show_opt(&got)
                    ),
                ));
            }
        }
        if self.hist.cfg.small_file == u64::MAX || all_eligible_by_truth {
            // every non-empty file was eligible: the store must now be exactly as large as a
            // fresh store holding the live pairs
            let mut live: BTreeMap<Vec<u8>, Vec<u8>> = BTreeMap::new();
            for (i, k) in self.keys.iter().enumerate() {
                if let Some(v) = &reads_before[i] {
                    live.insert(k.clone(), v.clone());
                }
            }
            let want: u64 = live.iter().map(|(k, v)| diskfmt::value_entry_size(k.len(), v.len())).sum();
            if ta != want {
                return Err(fail(
                    "merge-not-minimal",
                    format!(
                        "op #{}: after a merge with every file eligible the data files hold {} bytes, a fresh store of the {} live pairs needs {}",
                        opi,
                        ta,
                        live.len(),
                        want
                    ),
                ));
            }
            // each live key stored exactly once, no tombstone or dead entry kept
            let mut seen: BTreeMap<Vec<u8>, u32> = BTreeMap::new();
            for (id, (ents, rest, _)) in &after.data {
                if *rest != 0 {
                    return Err(fail("merge-output-torn", format!("op #{}: data file {} ends in {} undecodable bytes", opi, id, rest)));
                }
                for e in ents {
                    if e.value.is_none() {
                        return Err(fail("merge-kept-tombstone", format!("op #{}: tombstone of {} kept in file {}", opi, short(&e.key), id)));
                    }
                    *seen.entry(e.key.clone()).or_default() += 1;
                }
            }
            for (k, c) in &seen {
                if *c != 1 || !live.contains_key(k) {
                    return Err(fail(
                        "merge-kept-dead-entry",
                        format!("op #{}: key {} stored {} time(s) after full merge (live: {})", opi, short(k), c, live.contains_key(k)),
                    ));
                }
            }
            // differential: build the reference store for small cases
            if want < 200_000 && opi % 4 == 0 {
                let refdir = self.scratch.join("refstore");
                let _ = std::fs::remove_dir_all(&refdir);
                std::fs::create_dir_all(&refdir).unwrap();
                let mut cfg = self.hist.cfg.clone();
                cfg.max_file_size = 2 << 30;
                {
                    let kv = open_store(&cfg, &refdir).map_err(|e| fail("harness-refstore", e.to_string()))?;
                    let h = kv.get_handle();
                    for (k, v) in &live {
                        h.set(Bytes::from(k.clone()), Bytes::from(v.clone()))
                            .map_err(|e| fail("harness-refstore", e.to_string()))?;
                    }
                }
                let rs = diskfmt::scan_dir(&refdir).total_data_size();
                let _ = std::fs::remove_dir_all(&refdir);
                if rs != ta {
                    return Err(fail(
                        "merge-not-minimal",
                        format!("op #{}: merged store holds {} bytes, a fresh reference store of the live pairs holds {}", opi, ta, rs),
                    ));
                }
            }
            // repeating the merge changes nothing further
            let h = self.handle().clone();
            match catch(move || h.verif_merge()) {
                Ok(Ok(())) => {}
                Ok(Err(e)) => return Err(fail("merge-error", format!("op #{}: repeated merge failed: {}", opi, e))),
                Err(p) => return Err(fail(format!("merge-panic:{}", panic_site(&p)), format!("op #{}: repeated merge panicked: {}", opi, p))),
            }
            let again = diskfmt::scan_dir(&self.dir).total_data_size();
            if again != ta {
                return Err(fail(
                    "merge-not-idempotent",
                    format!("op #{}: repeating the merge changed the total size from {} to {}", opi, ta, again),
                ));
            }
            for (i, k) in self.keys.iter().enumerate() {
                let got = self.get(k)?;
                if got != reads_before[i] {
                    return Err(fail(
                        "merge-changed-read",
                        format!("op #{}: key {} changed across a repeated merge", opi, short(k)),
                    ));
                }
            }
            self.events += 1;
        }
        Ok(())
    }

    pub fn close(&mut self) {
        self.h = None;
        self.kv = None;
    }

    fn reopen(&mut self, opi: usize) -> Result<(), Failure> {
        self.stats.reopens += 1;
        if self.pending_del_or_cross {
            self.stats.reopen_after_del_or_cross_overwrite += 1;
        }
        if self.pending_partial_merge {
            self.stats.partial_merge_then_reopen += 1;
            self.pending_partial_merge = false;
        }
        self.close();
        if self.checks.hint {
            self.check_hints(opi)?;
        }
        self.open()?;
        self.last_file.clear();
        let d = self.dump();
        for (k, fid, _, _) in &d.keydir {
            self.last_file.insert(k.to_vec(), *fid);
        }
        self.stats.max_files = self.stats.max_files.max(diskfmt::scan_dir(&self.dir).data.len());
        if self.checks.model {
            self.check_all("after-reopen", opi)?;
            self.check_keyset("after-reopen", opi)?;
        }
        Ok(())
    }

    /// The index holds exactly the model's keys (nothing invented, nothing lost).
    pub fn check_keyset(&self, phase: &str, opi: usize) -> Result<(), Failure> {
        let d = self.dump();
        let have: BTreeSet<Vec<u8>> = d.keydir.iter().map(|(k, _, _, _)| k.to_vec()).collect();
        let want: BTreeSet<Vec<u8>> = self.model.keys().cloned().collect();
        if have != want {
            let extra: Vec<String> = have.difference(&want).map(|k| short(k)).collect();
            let missing: Vec<String> = want.difference(&have).map(|k| short(k)).collect();
            if self.checks.classify_d2 && missing.is_empty() {
                // every extra key must itself be classified by the per key check, which runs first
            }
            return Err(fail(
                format!("keyset-mismatch:{}", phase),
                format!("op #{} ({}): index key set differs from the model: extra {:?}, missing {:?}", opi, phase, extra, missing),
            ));
        }
        Ok(())
    }

    /// C12: recovery with and without hint files agrees (the store must be closed).
    fn check_hints(&mut self, opi: usize) -> Result<(), Failure> {
        let scan = diskfmt::scan_dir(&self.dir);
        let nonempty_hints = scan.hints.values().filter(|(e, _)| !e.is_empty()).count();
        if nonempty_hints > 0 {
            self.stats.hint_files_nonempty_at_close += 1;
        }
        if scan.hints.is_empty() {
            return Ok(());
        }
        self.stats.hint_diffs_checked += 1;
        let a = self.scratch.join("hint-a");
        let b = self.scratch.join("hint-b");
        copy_dir(&self.dir, &a, false);
        copy_dir(&self.dir, &b, true);
        let res = (|| {
            let ka = open_caught(&self.hist.cfg, &a).map_err(|e| fail("open-failed:with-hints", e))?;
            let kb = open_caught(&self.hist.cfg, &b).map_err(|e| fail("open-failed:without-hints", e))?;
            let (ha, hb) = (ka.get_handle(), kb.get_handle());
            let (da, db) = (ha.verif_dump(), hb.verif_dump());
            let sa: BTreeSet<Vec<u8>> = da.keydir.iter().map(|(k, _, _, _)| k.to_vec()).collect();
            let sb: BTreeSet<Vec<u8>> = db.keydir.iter().map(|(k, _, _, _)| k.to_vec()).collect();
            let mut all: BTreeSet<Vec<u8>> = self.keys.iter().cloned().collect();
            all.extend(sa.iter().cloned());
            all.extend(sb.iter().cloned());
            for k in &all {
                let (h1, h2) = (ha.clone(), hb.clone());
                let (k1, k2) = (Bytes::from(k.clone()), Bytes::from(k.clone()));
                let ga = catch(move || h1.get(k1));
                let gb = catch(move || h2.get(k2));
                let norm = |r: Result<Result<Option<Bytes>, Error>, String>| -> Result<Option<Vec<u8>>, String> {
                    match r {
                        Ok(Ok(v)) => Ok(v.map(|b| b.to_vec())),
                        Ok(Err(e)) => Err(format!("error: {}", e)),
                        Err(p) => Err(format!("panic: {}", p)),
                    }
                };
                let (ga, gb) = (norm(ga), norm(gb));
                if ga != gb || ga.is_err() {
                    return Err(fail(
                        "hint-recovery-differs",
                        format!(
                            "op #{}: key {} reads {:?} after recovery with hint files and {:?} after recovery from data files only",
                            opi,
                            short(k),
                            ga.as_ref().map(show_opt),
                            gb.as_ref().map(show_opt)
                        ),
                    ));
                }
            }
            if sa != sb {
                return Err(fail(
                    "hint-recovery-keyset-differs",
                    format!("op #{}: index key sets differ between recovery with and without hint files", opi),
                ));
            }
            Ok(())
        })();
        let _ = std::fs::remove_dir_all(&a);
        let _ = std::fs::remove_dir_all(&b);
        res
    }

    /// C19: per-file accounting and index versus an independent scan of the data files.
    pub fn check_accounting(&mut self, opi: usize) -> Result<(), Failure> {
        self.stats.acct_checks += 1;
        let d = self.dump();
        let scan = diskfmt::scan_dir(&self.dir);
        // every index entry decodes to its key with a value at (file, pos, len)
        let mut live: BTreeMap<u64, BTreeSet<u64>> = BTreeMap::new();
        for (k, fid, pos, len) in &d.keydir {
            let ok = scan
                .data
                .get(fid)
                .and_then(|(ents, _, _)| ents.iter().find(|e| e.pos == *pos))
                .map(|e| e.len == *len && e.key.as_slice() == k.as_ref() && e.value.is_some())
                .unwrap_or(false);
            if !ok {
                return Err(fail(
                    "index-entry-invalid",
                    format!(
                        "op #{}: index entry for {} -> (file {}, pos {}, len {}) does not decode to that key with a value",
                        opi,
                        short(k),
                        fid,
                        pos,
                        len
                    ),
                ));
            }
            live.entry(*fid).or_default().insert(*pos);
        }
        let stats: BTreeMap<u64, (u64, u64, u64)> = d.stats.iter().map(|(f, l, dk, db)| (*f, (*l, *dk, *db))).collect();
        let mut ids: BTreeSet<u64> = scan.data.keys().copied().collect();
        ids.extend(stats.keys().copied());
        for id in ids {
            let empty = BTreeSet::new();
            let lv = live.get(&id).unwrap_or(&empty);
            let (t_live, t_dead, t_dbytes) = match scan.data.get(&id) {
                Some((ents, _, _)) => {
                    let dead: Vec<&diskfmt::DataEntry> = ents.iter().filter(|e| !lv.contains(&e.pos)).collect();
                    (lv.len() as u64, dead.len() as u64, dead.iter().map(|e| e.len).sum::<u64>())
                }
                None => (0, 0, 0),
            };
            let (s_live, s_dead, s_dbytes) = stats.get(&id).copied().unwrap_or((0, 0, 0));
            if (t_live, t_dead, t_dbytes) != (s_live, s_dead, s_dbytes) {
                return Err(fail(
                    "accounting-mismatch",
                    format!(
                        "op #{} ({:?}): file {}: store says live={} dead={} dead_bytes={}, the file's real contents give live={} dead={} dead_bytes={}{}",
                        opi,
                        self.hist.ops.get(opi),
                        id,
                        s_live,
                        s_dead,
                        s_dbytes,
                        t_live,
                        t_dead,
                        t_dbytes,
                        if scan.data.contains_key(&id) { "" } else { " (file does not exist)" }
                    ),
                ));
            }
        }
        Ok(())
    }

    /// Run the whole history; returns the first oracle failure.
    pub fn run(&mut self) -> Result<(), Failure> {
        let ops = &self.hist.ops;
        for (i, op) in ops.iter().enumerate() {
            self.apply(i, op)?;
        }
        if self.checks.model {
            self.check_keyset("at-end", ops.len())?;
        }
        if self.checks.hint {
            self.close();
            self.check_hints(ops.len())?;
        }
        Ok(())
    }
}

pub fn copy_dir(from: &Path, to: &Path, skip_hints: bool) {
    let _ = std::fs::remove_dir_all(to);
    std::fs::create_dir_all(to).unwrap();
    if let Ok(rd) = std::fs::read_dir(from) {
        for e in rd.filter_map(|e| e.ok()) {
            let name = e.file_name();
            if skip_hints && name.to_string_lossy().ends_with(".hint") {
                continue;
            }
            let _ = std::fs::copy(e.path(), to.join(name));
        }
    }
}

/// Run a history with the given checks in a fresh directory below `scratch`.
pub fn run_hist(hist: &Hist, scratch: &Path, checks: Checks) -> (Option<Failure>, HistStats) {
    let dir = scratch.join("store");
    let _ = std::fs::remove_dir_all(&dir);
    std::fs::create_dir_all(&dir).unwrap();
    if hist.keys.is_empty() {
        return (None, HistStats::default());
    }
    let res = match HistRunner::new(hist, dir.clone(), scratch.to_path_buf(), checks) {
        Ok(mut r) => {
            let res = r.run();
            r.close();
            (res.err(), r.stats.clone())
        }
        Err(f) => (Some(f), HistStats::default()),
    };
    let _ = std::fs::remove_dir_all(&dir);
    res
}
