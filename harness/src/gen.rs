//! Shared case types and proptest strategies for store histories.

use proptest::prelude::*;
use serde::{Deserialize, Serialize};

#[derive(Clone, Debug, Serialize, Deserialize, PartialEq, Eq, Hash)]
pub struct KeySpec {
    pub len: u32,
    pub seed: u8,
}

#[derive(Clone, Debug, Serialize, Deserialize, PartialEq, Eq, Hash)]
pub struct ValSpec {
    pub len: u32,
    pub seed: u8,
}

fn fill(len: usize, seed: u8, salt: u64) -> Vec<u8> {
    let mut out = Vec::with_capacity(len);
    match seed % 6 {
        0 => out.resize(len, 0u8),
        1 => {
            while out.len() < len {
                out.push(if out.len() % 2 == 0 { b'\r' } else { b'\n' });
            }
        }
        2 => out.resize(len, 0xFF),
        3 => {
            let s = format!("text-{}-{};", seed, salt);
            while out.len() < len {
                out.push(s.as_bytes()[out.len() % s.len()]);
            }
        }
        _ => {
            let mut x = (seed as u64).wrapping_mul(0x9E3779B97F4A7C15) ^ salt.wrapping_mul(0xD1B54A32D192ED03) ^ 0x1234_5678_9ABC_DEF1;
            while out.len() < len {
                x ^= x << 13;
                x ^= x >> 7;
                x ^= x << 17;
                out.push((x >> 24) as u8);
            }
        }
    }
    out
}

pub fn key_bytes(k: &KeySpec) -> Vec<u8> {
    let mut b = fill(k.len as usize, k.seed, 0);
    // make keys of equal length but different seed differ even for the constant fills
    if !b.is_empty() {
        let last = b.len() - 1;
        b[last] = b[last].wrapping_add(k.seed / 6);
    }
    b
}

/// Value bytes; `salt` (the op index) makes values of different operations differ whenever the
/// value is long enough to carry it.
pub fn val_bytes(v: &ValSpec, salt: u64) -> Vec<u8> {
    let mut b = fill(v.len as usize, v.seed, salt);
    let tag = (salt.wrapping_add(1)).wrapping_mul(0x9E3779B97F4A7C15).to_le_bytes();
    let n = b.len().min(8);
    // keep the first byte's shape (NUL/CR/0xFF) when there is room, tag after it
    if b.len() >= 9 {
        b[1..9].copy_from_slice(&tag);
    } else if n > 0 {
        b[..n].copy_from_slice(&tag[..n]);
    }
    b
}

#[derive(Clone, Debug, Serialize, Deserialize, PartialEq)]
pub struct StoreCfg {
    pub max_file_size: u64,
    pub readers_cache: usize,
    pub concurrency: usize,
    pub frag: f64,
    pub dead_bytes: u64,
    pub small_file: u64,
    pub sync_always: bool,
    /// interval sync with this period (0 = off; `sync_always` wins)
    #[serde(default)]
    pub sync_interval_ms: u64,
}

impl StoreCfg {
    pub fn all_eligible(mut self) -> Self {
        self.small_file = u64::MAX;
        self
    }
}

pub fn key_strategy(big: bool) -> BoxedStrategy<KeySpec> {
    let len = if big {
        prop_oneof![
            2 => Just(0u32),
            6 => 1u32..4,
            8 => 4u32..40,
            3 => 90u32..130,
            1 => 8150u32..8200,
            1 => 20000u32..70000,
        ]
        .boxed()
    } else {
        prop_oneof![
            1 => Just(0u32),
            6 => 1u32..4,
            8 => 4u32..40,
            2 => 90u32..130,
        ]
        .boxed()
    };
    (len, any::<u8>()).prop_map(|(len, seed)| KeySpec { len, seed }).boxed()
}

#[derive(Clone, Copy, Debug, PartialEq, Eq)]
pub enum ValSizes {
    /// only values up to a few hundred bytes (filler heavy histories)
    Small,
    /// everything up to ~20 KiB
    Mixed,
    /// Mixed plus occasional 64 KiB .. 1 MiB
    Huge,
    /// every value between 9 KB and 40 KB (several write calls per entry, merges that fill
    /// large buffers)
    Big,
}

pub fn val_strategy(sizes: ValSizes) -> BoxedStrategy<ValSpec> {
    let len = match sizes {
        ValSizes::Small => prop_oneof![
            2 => Just(0u32),
            8 => 1u32..40,
            6 => 40u32..300,
        ]
        .boxed(),
        ValSizes::Mixed => prop_oneof![
            3 => Just(0u32),
            10 => 1u32..40,
            8 => 40u32..600,
            2 => 4040u32..4110,
            3 => 8100u32..8200,
            2 => 8200u32..20000,
            1 => 20000u32..40000,
        ]
        .boxed(),
        ValSizes::Big => prop_oneof![
            3 => 9000u32..20000,
            3 => 20000u32..40000,
        ]
        .boxed(),
        ValSizes::Huge => prop_oneof![
            3 => Just(0u32),
            10 => 1u32..40,
            8 => 40u32..600,
            2 => 4040u32..4110,
            3 => 8100u32..8200,
            3 => 8200u32..20000,
            1 => 60000u32..140000,
            1 => 900000u32..1100000,
        ]
        .boxed(),
    };
    (len, any::<u8>()).prop_map(|(len, seed)| ValSpec { len, seed }).boxed()
}

pub fn max_file_size_strategy() -> BoxedStrategy<u64> {
    prop_oneof![
        1 => Just(0u64),
        1 => Just(1u64),
        3 => 30u64..120,
        4 => 120u64..600,
        2 => 3000u64..6000,
        1 => Just(65536u64),
        1 => Just(2u64 * 1024 * 1024 * 1024),
    ]
    .boxed()
}

pub fn frag_strategy() -> BoxedStrategy<f64> {
    prop_oneof![
        2 => Just(0.0f64),
        6 => (1u32..10).prop_map(|x| x as f64 / 10.0),
        2 => Just(1.0f64),
    ]
    .boxed()
}

pub fn dead_bytes_strategy() -> BoxedStrategy<u64> {
    prop_oneof![
        2 => Just(0u64),
        4 => 1u64..400,
        2 => 400u64..20000,
        3 => Just(u64::MAX),
    ]
    .boxed()
}

pub fn small_file_strategy() -> BoxedStrategy<u64> {
    prop_oneof![
        3 => Just(0u64),
        4 => 1u64..400,
        2 => 400u64..20000,
        2 => Just(u64::MAX),
    ]
    .boxed()
}

/// Arbitrary configuration (thresholds select arbitrary subsets of files).
pub fn cfg_strategy() -> BoxedStrategy<StoreCfg> {
    (
        max_file_size_strategy(),
        prop_oneof![Just(0usize), Just(1), Just(2), Just(8), Just(256)],
        prop_oneof![Just(0usize), Just(1), Just(2), Just(4)],
        frag_strategy(),
        dead_bytes_strategy(),
        small_file_strategy(),
    )
        .prop_map(|(max_file_size, readers_cache, concurrency, frag, dead_bytes, small_file)| StoreCfg {
            max_file_size,
            readers_cache,
            concurrency,
            frag,
            dead_bytes,
            small_file,
            sync_always: false,
            sync_interval_ms: 0,
        })
        .boxed()
}

#[derive(Clone, Debug, Serialize, Deserialize, PartialEq)]
pub enum Op {
    Set(u8, ValSpec),
    Get(u8),
    Del(u8),
    Merge,
    Reopen,
}

#[derive(Clone, Copy, Debug)]
pub struct OpWeights {
    pub set: u32,
    pub get: u32,
    pub del: u32,
    pub merge: u32,
    pub reopen: u32,
}

pub fn op_strategy(w: OpWeights, sizes: ValSizes) -> BoxedStrategy<Op> {
    let mut alts: Vec<(u32, BoxedStrategy<Op>)> = Vec::new();
    if w.set > 0 {
        alts.push((
            w.set,
            (any::<u8>(), val_strategy(sizes)).prop_map(|(k, v)| Op::Set(k, v)).boxed(),
        ));
    }
    if w.get > 0 {
        alts.push((w.get, any::<u8>().prop_map(Op::Get).boxed()));
    }
    if w.del > 0 {
        alts.push((w.del, any::<u8>().prop_map(Op::Del).boxed()));
    }
    if w.merge > 0 {
        alts.push((w.merge, Just(Op::Merge).boxed()));
    }
    if w.reopen > 0 {
        alts.push((w.reopen, Just(Op::Reopen).boxed()));
    }
    proptest::strategy::Union::new_weighted(alts).boxed()
}

#[derive(Clone, Debug, Serialize, Deserialize, PartialEq)]
pub struct Hist {
    pub cfg: StoreCfg,
    pub keys: Vec<KeySpec>,
    pub ops: Vec<Op>,
}

/// Map a generated byte monotonically onto an index into a pool of `n` elements.
pub fn pick(k: u8, n: usize) -> usize {
    if n == 0 {
        0
    } else {
        (k as usize * n) >> 8
    }
}
