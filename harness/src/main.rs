#![allow(dead_code)]
mod diskfmt;
mod engine;
mod gen;
mod lin;
mod netfx;
mod props;
mod rec;
mod resp;
mod shim;
mod store;

use std::path::Path;

use engine::{seed_from_env, Tier};

fn usage() -> i32 {
    eprintln!("usage: vh run <ID> <quick|thorough> | vh shard ... | vh replay <file> | vh list");
    2
}

fn main() {
    let args: Vec<String> = std::env::args().collect();
    let all = props::all();
    let refs: Vec<&dyn engine::Property> = all.iter().map(|b| b.as_ref()).collect();
    let code = match args.get(1).map(|s| s.as_str()) {
        Some("list") => {
            for p in &refs {
                println!("{}", p.id());
            }
            0
        }
        Some("run") => {
            let id = match args.get(2) {
                Some(i) => i,
                None => std::process::exit(usage()),
            };
            let tier = args
                .get(3)
                .map(|s| s.to_string())
                .or_else(|| std::env::var("VERIF_TIER").ok())
                .and_then(|s| Tier::parse(&s))
                .unwrap_or(Tier::Quick);
            match refs.iter().find(|p| p.id() == id) {
                Some(p) => engine::supervise(*p, tier, seed_from_env()),
                None => {
                    eprintln!("unknown property {}", id);
                    2
                }
            }
        }
        Some("shard") => {
            // shard <id> <tier> <seed> <shard> <nshards> <out>
            if args.len() < 8 {
                std::process::exit(usage());
            }
            let tier = Tier::parse(&args[3]).unwrap_or(Tier::Quick);
            let seed: u64 = args[4].parse().unwrap_or(1);
            let shard: usize = args[5].parse().unwrap_or(0);
            let nshards: usize = args[6].parse().unwrap_or(1);
            match refs.iter().find(|p| p.id() == args[2]) {
                Some(p) => engine::run_shard_main(*p, tier, seed, shard, nshards, Path::new(&args[7])),
                None => 2,
            }
        }
        Some("replay") => match args.get(2) {
            Some(p) => engine::replay_main(&refs, Path::new(p)),
            None => usage(),
        },
        Some(other) => match props::extra_command(other, &args[2..]) {
            Some(c) => c,
            None => usage(),
        },
        None => usage(),
    };
    std::process::exit(code);
}
