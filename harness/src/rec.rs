//! Recorded workloads: run a history under the shim's recorder, turn the log into the ordered
//! list of mutating file-system calls, materialise directory states from prefixes of it.

use std::{
    collections::BTreeMap,
    path::{Path, PathBuf},
};

use bitcask::storage::{bitcask::Bitcask, KeyValueStorage};
use bytes::Bytes;

use crate::{
    engine::{catch, panic_site, Failure},
    gen::{key_bytes, pick, val_bytes, Hist, Op},
    shim::{self, Kind, Rec},
    store::{fail, open_caught, Model},
};

#[derive(Clone, Debug, PartialEq, Eq)]
pub enum MCall {
    Create(String),
    Write(String, Vec<u8>),
    Unlink(String),
    Fsync(String),
}

impl MCall {
    pub fn file(&self) -> &str {
        match self {
            MCall::Create(f) | MCall::Write(f, _) | MCall::Unlink(f) | MCall::Fsync(f) => f,
        }
    }
    pub fn describe(&self) -> String {
        match self {
            MCall::Create(f) => format!("create {}", f),
            MCall::Write(f, d) => format!("write {} ({} bytes)", f, d.len()),
            MCall::Unlink(f) => format!("unlink {}", f),
            MCall::Fsync(f) => format!("fsync {}", f),
        }
    }
}

#[derive(Clone, Debug)]
pub struct MEntry {
    pub call: MCall,
    /// index of the op during which the call was made (None: between ops, e.g. open/close)
    pub op: Option<usize>,
    pub log_idx: usize,
}

#[derive(Clone, Debug, PartialEq, Eq)]
pub enum OpRes {
    Ok,
    Del(bool),
    Got(Option<Vec<u8>>),
    Err(String),
    Panic(String),
}

pub struct RecRun {
    pub log: Vec<Rec>,
    /// successful mutating calls (+ fsyncs if requested) in order
    pub calls: Vec<MEntry>,
    pub results: Vec<OpRes>,
    /// models[i] = model after ops 0..i; models[0] is empty
    pub models: Vec<Model>,
    /// log index of the start / end marker of each op
    pub op_start: Vec<usize>,
    pub op_end: Vec<usize>,
    pub keys: Vec<Vec<u8>>,
    /// first in-process oracle failure (results vs model), if any
    pub failure: Option<Failure>,
    /// directory snapshots taken after the open and after every op: (log length, name -> content)
    pub snaps: Vec<(usize, BTreeMap<String, Vec<u8>>)>,
}

pub fn snapshot_dir(dir: &Path) -> BTreeMap<String, Vec<u8>> {
    shim::quiet(|| snapshot_dir_inner(dir))
}

fn snapshot_dir_inner(dir: &Path) -> BTreeMap<String, Vec<u8>> {
    let mut m = BTreeMap::new();
    if let Ok(rd) = std::fs::read_dir(dir) {
        for e in rd.filter_map(|e| e.ok()) {
            m.insert(e.file_name().to_string_lossy().to_string(), std::fs::read(e.path()).unwrap_or_default());
        }
    }
    m
}

/// Extract the mutating calls from a log.  `prefix` restricts to paths below `<prefix>/`.
pub fn mutating_calls(log: &[Rec], prefix: &str, with_fsync: bool) -> Vec<MEntry> {
    let mut out = Vec::new();
    let mut cur: Option<usize> = None;
    let want = format!("{}/", prefix);
    for (i, r) in log.iter().enumerate() {
        match &r.kind {
            Kind::Marker(op, end) => {
                cur = if *end { None } else { Some(*op) };
                continue;
            }
            _ => {}
        }
        if !r.rel.starts_with(&want) {
            continue;
        }
        if r.result < 0 {
            continue;
        }
        let call = match &r.kind {
            Kind::Create => MCall::Create(r.file.clone()),
            Kind::Write => {
                if r.data.is_empty() {
                    continue;
                }
                MCall::Write(r.file.clone(), r.data.clone())
            }
            Kind::Unlink => MCall::Unlink(r.file.clone()),
            Kind::Fsync if with_fsync => MCall::Fsync(r.file.clone()),
            _ => continue,
        };
        out.push(MEntry {
            call,
            op: cur,
            log_idx: i,
        });
    }
    out
}

pub struct OpApplier<'a> {
    pub hist: &'a Hist,
    pub keys: Vec<Vec<u8>>,
    pub dir: PathBuf,
    pub kv: Option<Bitcask>,
    /// number of threads of the process while no store of this applier is open
    pub base_threads: usize,
    /// set/get/del travel as RESP commands through an in-process server over the store's handle
    /// (one connection, re-established after the server ended it) instead of direct calls
    pub via_resp: bool,
    net: Option<(crate::netfx::ServerFx, Option<crate::netfx::RawClient>)>,
}

impl<'a> Drop for OpApplier<'a> {
    fn drop(&mut self) {
        self.close();
    }
}

impl<'a> OpApplier<'a> {
    pub fn new(hist: &'a Hist, dir: &Path) -> Self {
        OpApplier {
            hist,
            keys: hist.keys.iter().map(key_bytes).collect(),
            dir: dir.to_path_buf(),
            kv: None,
            base_threads: crate::store::thread_count(),
            via_resp: false,
            net: None,
        }
    }

    /// One RESP round trip.  A reply that is an error frame, or a connection that ends without a
    /// reply, is the operation's error; no reply within 10 s is reported like a panic.
    fn resp_roundtrip(&mut self, args: &[&[u8]]) -> Result<crate::resp::F, OpRes> {
        use crate::netfx::{RawClient, ServerFx};
        if self.net.is_none() {
            let h = match &self.kv {
                Some(kv) => kv.get_handle(),
                None => return Err(OpRes::Err("store not open".into())),
            };
            let base = crate::store::thread_count();
            match ServerFx::start_on_handle(h, 4, 1, base) {
                Ok(s) => self.net = Some((s, None)),
                Err(e) => return Err(OpRes::Panic(format!("harness: server start failed: {}", e))),
            }
        }
        let (srv, cl) = self.net.as_mut().unwrap();
        if cl.is_none() {
            match RawClient::connect(&srv.addr()) {
                Ok(c) => *cl = Some(c),
                Err(e) => return Err(OpRes::Panic(format!("harness: connect failed: {}", e))),
            }
        }
        let c = cl.as_mut().unwrap();
        if let Err(e) = c.send(&crate::resp::command(args)) {
            *cl = None;
            return Err(OpRes::Err(format!("send failed: {}", e)));
        }
        match c.read_replies(1, std::time::Duration::from_secs(10)) {
            Ok(mut r) => match r.pop() {
                Some(crate::resp::F::Error(e)) => Err(OpRes::Err(format!("error reply: {}", e))),
                Some(f) => Ok(f),
                None => Err(OpRes::Panic("harness: empty reply list".into())),
            },
            Err(e) => {
                let ended = c.eof || c.reset;
                *cl = None;
                if ended {
                    Err(OpRes::Err(format!("connection ended without a reply: {}", e)))
                } else {
                    Err(OpRes::Panic(format!("no reply within 10 s: {}", e)))
                }
            }
        }
    }

    fn apply_resp(&mut self, opi: usize, op: &Op) -> OpRes {
        use crate::resp::F;
        let n = self.keys.len();
        match op {
            Op::Set(ki, vs) => {
                let k = self.keys[pick(*ki, n)].clone();
                let v = val_bytes(vs, opi as u64);
                match self.resp_roundtrip(&[b"SET", &k, &v]) {
                    Ok(F::Simple(s)) if s == "OK" => OpRes::Ok,
                    Ok(f) => OpRes::Panic(format!("SET answered {:?}", f)),
                    Err(r) => r,
                }
            }
            Op::Del(ki) => {
                let k = self.keys[pick(*ki, n)].clone();
                match self.resp_roundtrip(&[b"DEL", &k]) {
                    Ok(F::Int(i)) if i == 0 || i == 1 => OpRes::Del(i == 1),
                    Ok(f) => OpRes::Panic(format!("DEL answered {:?}", f)),
                    Err(r) => r,
                }
            }
            Op::Get(ki) => {
                let k = self.keys[pick(*ki, n)].clone();
                match self.resp_roundtrip(&[b"GET", &k]) {
                    Ok(F::Null) => OpRes::Got(None),
                    Ok(F::Bulk(v)) => OpRes::Got(Some(v)),
                    Ok(f) => OpRes::Panic(format!("GET answered {:?}", f)),
                    Err(r) => r,
                }
            }
            _ => unreachable!(),
        }
    }

    pub fn open(&mut self) -> Result<(), String> {
        self.close();
        let kv = open_caught(&self.hist.cfg, &self.dir)?;
        let d = kv.get_handle().verif_dump();
        if d.readers_len == 0 {
            // a get on an empty reader pool never returns: report it instead of hanging
            return Err(format!("open failed: the reader pool holds 0 of {} readers (every get would spin forever)", d.readers_capacity));
        }
        self.kv = Some(kv);
        Ok(())
    }

    /// Drop the store and wait until its background worker is gone.
    pub fn close(&mut self) {
        if let Some((srv, cl)) = self.net.take() {
            if let Some(c) = cl {
                c.close();
            }
            srv.stop(std::time::Duration::from_secs(10));
        }
        if self.kv.take().is_some() {
            crate::store::wait_bg_exit(self.base_threads);
        }
    }

    /// Apply an op to the store; never panics.
    pub fn apply(&mut self, opi: usize, op: &Op) -> OpRes {
        if self.via_resp && self.kv.is_some() && matches!(op, Op::Set(..) | Op::Del(_) | Op::Get(_)) {
            return self.apply_resp(opi, op);
        }
        let n = self.keys.len();
        let h = match &self.kv {
            Some(kv) => kv.get_handle(),
            None => {
                if let Op::Reopen = op {
                    return match self.open() {
                        Ok(()) => OpRes::Ok,
                        Err(e) => OpRes::Err(e),
                    };
                }
                return OpRes::Err("store not open".into());
            }
        };
        let r = match op {
            Op::Set(ki, vs) => {
                let k = Bytes::from(self.keys[pick(*ki, n)].clone());
                let v = Bytes::from(val_bytes(vs, opi as u64));
                catch(move || h.set(k, v).map(|_| OpRes::Ok).map_err(|e| e.to_string()))
            }
            Op::Del(ki) => {
                let k = Bytes::from(self.keys[pick(*ki, n)].clone());
                catch(move || h.del(k).map(OpRes::Del).map_err(|e| e.to_string()))
            }
            Op::Get(ki) => {
                let k = Bytes::from(self.keys[pick(*ki, n)].clone());
                catch(move || h.get(k).map(|v| OpRes::Got(v.map(|b| b.to_vec()))).map_err(|e| e.to_string()))
            }
            Op::Merge => catch(move || h.verif_merge().map(|_| OpRes::Ok).map_err(|e| e.to_string())),
            Op::Reopen => {
                drop(h);
                return match self.open() {
                    Ok(()) => OpRes::Ok,
                    Err(e) => OpRes::Err(e),
                };
            }
        };
        match r {
            Ok(Ok(x)) => x,
            Ok(Err(e)) => OpRes::Err(e),
            Err(p) => OpRes::Panic(p),
        }
    }

    pub fn get(&self, key: &[u8]) -> OpRes {
        let h = match &self.kv {
            Some(kv) => kv.get_handle(),
            None => return OpRes::Err("store not open".into()),
        };
        let k = Bytes::copy_from_slice(key);
        match catch(move || h.get(k).map(|v| OpRes::Got(v.map(|b| b.to_vec()))).map_err(|e| e.to_string())) {
            Ok(Ok(x)) => x,
            Ok(Err(e)) => OpRes::Err(e),
            Err(p) => OpRes::Panic(p),
        }
    }
}

/// Expected result of `op` against `model` (which is updated).
pub fn model_apply(model: &mut Model, keys: &[Vec<u8>], opi: usize, op: &Op) -> OpRes {
    let n = keys.len();
    match op {
        Op::Set(ki, vs) => {
            model.insert(keys[pick(*ki, n)].clone(), val_bytes(vs, opi as u64));
            OpRes::Ok
        }
        Op::Del(ki) => OpRes::Del(model.remove(&keys[pick(*ki, n)]).is_some()),
        Op::Get(ki) => OpRes::Got(model.get(&keys[pick(*ki, n)]).cloned()),
        Op::Merge | Op::Reopen => OpRes::Ok,
    }
}

/// Run `hist` in `<scratch>/<name>` under the recorder.
pub fn run_recorded(hist: &Hist, scratch: &Path, name: &str, with_fsync: bool) -> RecRun {
    let dir = scratch.join(name);
    let _ = std::fs::remove_dir_all(&dir);
    std::fs::create_dir_all(&dir).unwrap();
    run_recorded_in(hist, scratch, name, with_fsync, false)
}

/// Like `run_recorded` but starts from whatever `<scratch>/<name>` already holds; with `snaps`
/// the directory content is captured after the open and after every op.
pub fn run_recorded_in(hist: &Hist, scratch: &Path, name: &str, with_fsync: bool, snaps: bool) -> RecRun {
    let dir = scratch.join(name);
    let mut snapv = Vec::new();
    shim::register(scratch);
    let mut ap = OpApplier::new(hist, &dir);
    let keys = ap.keys.clone();
    let mut model = Model::new();
    let mut models = vec![model.clone()];
    let mut results = Vec::new();
    let mut failure = None;
    shim::record_start();
    if let Err(e) = ap.open() {
        failure = Some(fail("open-failed", e));
    }
    if snaps {
        snapv.push((shim::log_len(), snapshot_dir(&dir)));
    }
    if failure.is_none() {
        for (i, op) in hist.ops.iter().enumerate() {
            shim::marker(i, false);
            let got = ap.apply(i, op);
            shim::marker(i, true);
            if hist.cfg.sync_interval_ms > 0 && !hist.cfg.sync_always {
                // let the sync timer tick between the operations
                std::thread::sleep(std::time::Duration::from_micros(1500 * hist.cfg.sync_interval_ms));
            }
            if snaps {
                snapv.push((shim::log_len(), snapshot_dir(&dir)));
            }
            let want = model_apply(&mut model, &keys, i, op);
            models.push(model.clone());
            if got != want && failure.is_none() {
                let sig = match &got {
                    OpRes::Panic(p) => format!("in-process-panic:{}", panic_site(p)),
                    OpRes::Err(_) => "in-process-error".to_string(),
                    _ => "in-process-mismatch".to_string(),
                };
                failure = Some(fail(sig, format!("op #{} {:?}: store returned {:?}, model says {:?}", i, op, trunc(&got), trunc(&want))));
            }
            results.push(got);
            if failure.is_some() {
                break;
            }
        }
    }
    ap.close();
    let log = shim::record_stop();
    let calls = mutating_calls(&log, name, with_fsync);
    let nops = hist.ops.len();
    let mut op_start = vec![usize::MAX; nops];
    let mut op_end = vec![usize::MAX; nops];
    for (i, r) in log.iter().enumerate() {
        if let Kind::Marker(op, end) = r.kind {
            if end {
                op_end[op] = i;
            } else {
                op_start[op] = i;
            }
        }
    }
    RecRun {
        log,
        calls,
        results,
        models,
        op_start,
        op_end,
        keys,
        failure,
        snaps: snapv,
    }
}

pub fn trunc(r: &OpRes) -> String {
    let s = format!("{:?}", r);
    if s.len() > 160 {
        format!("{}…", &s[..160])
    } else {
        s
    }
}

/// In-memory directory state built from a prefix of mutating calls.
#[derive(Clone, Debug, Default)]
pub struct MemDir {
    pub files: BTreeMap<String, Vec<u8>>,
    /// length of each file at its last fsync
    pub synced: BTreeMap<String, usize>,
}

impl MemDir {
    pub fn apply(&mut self, c: &MCall) {
        match c {
            MCall::Create(f) => {
                self.files.entry(f.clone()).or_default();
                self.synced.entry(f.clone()).or_insert(0);
            }
            MCall::Write(f, d) => {
                self.files.entry(f.clone()).or_default().extend_from_slice(d);
            }
            MCall::Unlink(f) => {
                self.files.remove(f);
                self.synced.remove(f);
            }
            MCall::Fsync(f) => {
                let n = self.files.get(f).map(|v| v.len()).unwrap_or(0);
                self.synced.insert(f.clone(), n);
            }
        }
    }

    pub fn materialise(&self, dir: &Path) {
        let _ = std::fs::remove_dir_all(dir);
        std::fs::create_dir_all(dir).unwrap();
        for (f, d) in &self.files {
            std::fs::write(dir.join(f), d).unwrap();
        }
    }

    /// Materialise with every file cut to `len_of(file, synced_len, cur_len)`.
    pub fn materialise_cut(&self, dir: &Path, mut len_of: impl FnMut(&str, usize, usize) -> usize) {
        let _ = std::fs::remove_dir_all(dir);
        std::fs::create_dir_all(dir).unwrap();
        for (f, d) in &self.files {
            let s = self.synced.get(f).copied().unwrap_or(0).min(d.len());
            let n = len_of(f, s, d.len()).clamp(s, d.len());
            std::fs::write(dir.join(f), &d[..n]).unwrap();
        }
    }
}

/// Read all keys of a recovered store and decide whether they equal `a` or `b` (consistently).
/// Returns which one matched (0 = a, 1 = b) or a failure description.
pub fn match_models(ap: &OpApplier<'_>, keys: &[Vec<u8>], a: &Model, b: Option<&Model>) -> Result<u8, Failure> {
    let mut reads: Vec<Option<Vec<u8>>> = Vec::new();
    for k in keys {
        match ap.get(k) {
            OpRes::Got(v) => reads.push(v),
            OpRes::Panic(p) => {
                return Err(fail(
                    format!("recovered-get-panic:{}", panic_site(&p)),
                    format!("get({:?}) on the recovered store panicked: {}", Bytes::copy_from_slice(&k[..k.len().min(16)]), p),
                ))
            }
            other => {
                return Err(fail(
                    "recovered-get-error",
                    format!("get({:?}) on the recovered store failed: {}", Bytes::copy_from_slice(&k[..k.len().min(16)]), trunc(&other)),
                ))
            }
        }
    }
    let eq = |m: &Model| keys.iter().zip(reads.iter()).all(|(k, r)| m.get(k) == r.as_ref());
    if eq(a) {
        return Ok(0);
    }
    if let Some(b) = b {
        if eq(b) {
            return Ok(1);
        }
    }
    // describe the first differing key
    for (k, r) in keys.iter().zip(reads.iter()) {
        if a.get(k) != r.as_ref() {
            let show = |v: Option<&Vec<u8>>| match v {
                None => "None".to_string(),
                Some(b) => format!("Some({:?}…len {})", Bytes::copy_from_slice(&b[..b.len().min(10)]), b.len()),
            };
            return Err(fail(
                "recovered-wrong-value",
                format!(
                    "key {:?} reads {} after recovery; acknowledged state says {}{}",
                    Bytes::copy_from_slice(&k[..k.len().min(16)]),
                    show(r.as_ref()),
                    show(a.get(k)),
                    match b {
                        Some(b) => format!(", with the in-flight op applied {}", show(b.get(k))),
                        None => String::new(),
                    }
                ),
            ));
        }
    }
    Err(fail("recovered-wrong-value", "recovered store matches neither allowed state".to_string()))
}
