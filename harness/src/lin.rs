//! Linearizability checker (Wing-Gong search with memoisation, after Lowe) for one register with
//! delete.  A key-value map is linearizable iff each key's sub-history is (locality), so callers
//! check per key.

use std::collections::HashSet;

#[derive(Clone, Copy, Debug, PartialEq, Eq)]
pub enum LKind {
    /// set(v) -> ok
    Set(u64),
    /// get -> Some(v) | None
    Get(Option<u64>),
    /// del -> was present
    Del(bool),
}

#[derive(Clone, Copy, Debug)]
pub struct LOp {
    pub inv: u64,
    pub resp: u64,
    pub kind: LKind,
    /// free tag for messages (thread/connection, index)
    pub who: (u32, u32),
}

fn step(state: Option<u64>, k: LKind) -> Option<Option<u64>> {
    match k {
        LKind::Set(v) => Some(Some(v)),
        LKind::Get(r) => {
            if r == state {
                Some(state)
            } else {
                None
            }
        }
        LKind::Del(b) => {
            if b == state.is_some() {
                Some(None)
            } else {
                None
            }
        }
    }
}

/// Returns Ok(()) if the history of one register (initially absent) is linearizable, otherwise
/// a description.  At most 128 operations.
pub fn check_register(ops: &[LOp]) -> Result<(), String> {
    let n = ops.len();
    if n == 0 {
        return Ok(());
    }
    if n > 128 {
        return Err(format!("history too long for the checker ({} ops)", n));
    }
    let full: u128 = if n == 128 { u128::MAX } else { (1u128 << n) - 1 };
    let mut seen: HashSet<(u128, Option<u64>)> = HashSet::new();
    // iterative DFS: stack of (mask, state, next candidate index)
    let mut stack: Vec<(u128, Option<u64>, usize)> = vec![(0, None, 0)];
    let mut best = 0u32;
    while let Some((mask, state, from)) = stack.pop() {
        if mask == full {
            return Ok(());
        }
        // minimal response time among unlinearised ops
        let mut min_resp = u64::MAX;
        for (i, o) in ops.iter().enumerate() {
            if mask & (1u128 << i) == 0 && o.resp < min_resp {
                min_resp = o.resp;
            }
        }
        let mut i = from;
        let mut pushed = false;
        while i < n {
            if mask & (1u128 << i) == 0 && ops[i].inv < min_resp {
                if let Some(ns) = step(state, ops[i].kind) {
                    let nm = mask | (1u128 << i);
                    if seen.insert((nm, ns)) {
                        // come back to this frame later, continuing after i
                        stack.push((mask, state, i + 1));
                        stack.push((nm, ns, 0));
                        best = best.max(nm.count_ones());
                        pushed = true;
                        break;
                    }
                }
            }
            i += 1;
        }
        let _ = pushed;
    }
    // describe: the ops that could not be placed
    let mut desc = String::new();
    for o in ops.iter() {
        desc.push_str(&format!("\n    [{}..{}] by {:?}: {:?}", o.inv, o.resp, o.who, o.kind));
        if desc.len() > 3000 {
            desc.push_str("\n    …");
            break;
        }
    }
    Err(format!(
        "no linearization exists (at most {} of {} operations could be ordered); history of the key:{}",
        best, n, desc
    ))
}

#[cfg(test)]
mod tests {
    use super::*;
    fn op(inv: u64, resp: u64, kind: LKind) -> LOp {
        LOp { inv, resp, kind, who: (0, 0) }
    }
    #[test]
    fn basic() {
        assert!(check_register(&[op(0, 1, LKind::Set(1)), op(2, 3, LKind::Get(Some(1)))]).is_ok());
        assert!(check_register(&[op(0, 1, LKind::Set(1)), op(2, 3, LKind::Get(None))]).is_err());
        // overlapping: get may see either
        assert!(check_register(&[op(0, 5, LKind::Set(1)), op(1, 2, LKind::Get(None))]).is_ok());
        assert!(check_register(&[op(0, 5, LKind::Set(1)), op(1, 2, LKind::Get(Some(1)))]).is_ok());
        // stale read
        assert!(check_register(&[op(0, 1, LKind::Set(1)), op(2, 3, LKind::Set(2)), op(4, 5, LKind::Get(Some(1)))]).is_err());
        assert!(check_register(&[op(0, 1, LKind::Set(1)), op(2, 3, LKind::Del(true)), op(4, 5, LKind::Del(false)), op(6, 7, LKind::Get(None))]).is_ok());
        assert!(check_register(&[op(0, 1, LKind::Set(1)), op(2, 3, LKind::Del(false))]).is_err());
    }
}
