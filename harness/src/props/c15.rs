//! C15 — the connection limit holds and slots are never leaked.

use std::time::{Duration, Instant};

use proptest::prelude::*;
use serde::{Deserialize, Serialize};

use crate::{
    engine::{Env, Outcome, Prop, Tier},
    netfx::{probe, RawClient, ServerFx},
    props::c06::net_store_cfg,
    resp::{command, F},
};

#[derive(Clone, Debug, Serialize, Deserialize)]
pub struct Round {
    /// probe with an over-limit client before ending a connection
    pub probe: bool,
    /// which served connection ends (index byte)
    pub victim: u8,
    /// 0 clean close, 1 close with a half-sent frame, 2 malformed command (server closes, client
    /// keeps its socket open), 3 garbage bytes, 4 non-UTF-8 key, 5 wrong argument count,
    /// 6 well-formed command then abrupt close with an unread reply, 7 the connection's handler
    /// panics while serving a well-formed command
    pub way: u8,
    /// the over-limit client of this round does not wait: it aborts its connection (RST) while
    /// it is still in the listen backlog, i.e. before the server has accepted it
    #[serde(default)]
    pub abort_waiting: bool,
}

/// The listener's next `count` accept calls fail with `errno` (shim; the pending connection
/// stays in the backlog and is accepted by a later retry).
#[derive(Clone, Debug, Serialize, Deserialize)]
pub struct AcceptFault {
    /// 0 = armed before the first connection; r+1 = armed in round r just before the served
    /// connection is ended (so the accept that follows the freed slot fails)
    pub at: u8,
    pub count: u8,
    pub errno: i32,
}

#[derive(Clone, Debug, Serialize, Deserialize)]
pub struct LimitCase {
    pub n: u8,
    pub rounds: Vec<Round>,
    #[serde(default)]
    pub accept_faults: Vec<AcceptFault>,
}

/// errnos a listener realistically sees from accept(): out of descriptors (process, system),
/// out of memory / buffers, a connection that went away, an interrupted call.  EAGAIN is left
/// out: the kernel never reports it with a connection pending, and faking it would park an
/// edge-triggered listener on a readiness event that was already consumed.
const ACCEPT_ERRNOS: [i32; 6] = [libc::EMFILE, libc::ENFILE, libc::ENOMEM, libc::ENOBUFS, libc::ECONNABORTED, libc::EINTR];

fn strategy(tier: Tier) -> BoxedStrategy<LimitCase> {
    let maxn = tier.pick(5u8, 6u8);
    (1u8..=maxn)
        .prop_flat_map(|n| {
            (
                Just(n),
                proptest::collection::vec(
                    (prop_oneof![1 => Just(true), 2 => Just(false)], any::<u8>(), 0u8..8, prop_oneof![2 => Just(false), 1 => Just(true)]).prop_map(|(probe, victim, way, abort_waiting)| Round { probe, victim, way, abort_waiting }),
                    (n as usize)..=(3 * n as usize + 1),
                ),
            )
        })
        .prop_flat_map(|(n, rounds)| {
            let nr = rounds.len() as u8;
            let fault = (0u8..=nr, 1u8..=4, 0usize..ACCEPT_ERRNOS.len()).prop_map(|(at, count, e)| AcceptFault { at, count, errno: ACCEPT_ERRNOS[e] });
            let faults = prop_oneof![
                2 => Just(Vec::new()).boxed(),
                1 => proptest::collection::vec(fault, 1..=3).boxed(),
            ];
            (Just(n), Just(rounds), faults)
        })
        .prop_map(|(n, rounds, accept_faults)| LimitCase { n, rounds, accept_faults })
        .boxed()
}

/// The server's storage for C15: a handle of the real store whose `clone()` panics once after
/// `armed` was set.  `Handler::run` clones its storage for every command, on the connection's
/// own task, so arming the flag and then sending one command on a connection makes exactly that
/// connection's handler panic - the "panic in its handler" ending the property names.  (The
/// store operations themselves run under `spawn_blocking`; a panic there only yields an error.)
pub struct PanicKv {
    inner: bitcask::storage::bitcask::Handle,
    armed: std::sync::Arc<std::sync::atomic::AtomicBool>,
}

impl Clone for PanicKv {
    fn clone(&self) -> Self {
        if self.armed.swap(false, std::sync::atomic::Ordering::SeqCst) {
            panic!("injected handler panic (storage clone)");
        }
        PanicKv { inner: self.inner.clone(), armed: self.armed.clone() }
    }
}

impl bitcask::storage::KeyValueStorage for PanicKv {
    type Error = <bitcask::storage::bitcask::Handle as bitcask::storage::KeyValueStorage>::Error;
    fn set(&self, key: bytes::Bytes, value: bytes::Bytes) -> Result<(), Self::Error> {
        bitcask::storage::KeyValueStorage::set(&self.inner, key, value)
    }
    fn get(&self, key: bytes::Bytes) -> Result<Option<bytes::Bytes>, Self::Error> {
        bitcask::storage::KeyValueStorage::get(&self.inner, key)
    }
    fn del(&self, key: bytes::Bytes) -> Result<bool, Self::Error> {
        bitcask::storage::KeyValueStorage::del(&self.inner, key)
    }
}

const POSITIVE_BOUND: Duration = Duration::from_secs(10);
const SILENCE: Duration = Duration::from_millis(300);

/// Connect and ask a GET; Ok(client) if the reply arrived within the bound.
fn open_served(addr: &str, tag: &str) -> Result<RawClient, String> {
    let mut c = RawClient::connect(addr)?;
    c.send(&command(&[b"GET", tag.as_bytes()]))?;
    match c.read_replies(1, POSITIVE_BOUND) {
        Ok(r) => {
            if r[0] != F::Null {
                return Err(format!("unexpected reply {:?}", r[0]));
            }
            Ok(c)
        }
        Err(e) => Err(e),
    }
}

enum Verdict {
    Ok,
    Fail(String, String),
    Timeout(String, String),
}

fn scenario(c: &LimitCase, addr: &str, panic_flag: &std::sync::atomic::AtomicBool, out: &mut Outcome) -> Verdict {
    let n = c.n as usize;
    let mut served: Vec<RawClient> = Vec::new();
    // clients whose connection the server has ended but which keep their socket open
    let mut zombies: Vec<RawClient> = Vec::new();
    let mut armed_total = 0u32;
    let mut fired_total = 0u32;
    let arm = |at: usize, out: &mut Outcome, fired_total: &mut u32, armed_total: &mut u32| {
        for f in c.accept_faults.iter().filter(|f| f.at as usize == at) {
            *fired_total += crate::shim::accept_disarm();
            crate::shim::accept_arm(f.count as u32, f.errno);
            *armed_total += f.count as u32;
            out.label(format!("accept-fault-errno-{}", f.errno));
        }
    };
    arm(0, out, &mut fired_total, &mut armed_total);
    for i in 0..n {
        match open_served(addr, &format!("fill{}", i)) {
            Ok(cl) => served.push(cl),
            Err(e) => return Verdict::Timeout("limit-not-reached".into(), format!("connection #{} of {} allowed ones was not served: {}", i + 1, n, e)),
        }
    }
    let mut faulty = 0;
    let mut probes = 0;
    for (ri, r) in c.rounds.iter().enumerate() {
        // over-limit probe: with n connections being served nobody else may get a reply
        let mut waiting: Option<RawClient> = None;
        if r.probe {
            probes += 1;
            let mut w = match RawClient::connect(addr) {
                Ok(w) => w,
                Err(e) => return Verdict::Timeout("connect-failed".into(), e),
            };
            if let Err(e) = w.send(&command(&[b"GET", b"over"])) {
                return Verdict::Timeout("send-failed".into(), e);
            }
            let t0 = Instant::now();
            while t0.elapsed() < SILENCE {
                w.pump(Duration::from_millis(20));
                if !w.rx.is_empty() {
                    return Verdict::Fail(
                        "limit-exceeded".into(),
                        format!(
                            "round {}: with {} connections being served (max_connections = {}) one more client received a reply after {:?}",
                            ri,
                            n,
                            n,
                            t0.elapsed()
                        ),
                    );
                }
            }
            if r.abort_waiting {
                // reset while still in the backlog: the server later accepts a dead socket
                w.abort();
                out.label("over-limit-client-aborted-before-accept");
            } else {
                waiting = Some(w);
            }
        }
        // end one served connection (the accept that follows the freed slot may be made to fail)
        arm(ri + 1, out, &mut fired_total, &mut armed_total);
        let vi = crate::gen::pick(r.victim, served.len());
        let mut v = served.remove(vi);
        let way = r.way % 8;
        if way != 0 {
            faulty += 1;
        }
        out.label(format!("ending-way-{}", way));
        match way {
            0 => v.close(),
            1 => {
                let _ = v.send(b"*2\r\n$3\r\nGET\r\n$5\r\nab");
                v.close();
            }
            6 => {
                let _ = v.send(&command(&[b"GET", b"unread"]));
                v.close();
            }
            7 => {
                // all N slots are taken, so the listener waits for a permit and clones nothing;
                // the next clone of the storage is this connection's handler serving this GET
                panic_flag.store(true, std::sync::atomic::Ordering::SeqCst);
                let _ = v.send(&command(&[b"GET", b"boom"]));
                let closed = v.read_to_end(POSITIVE_BOUND);
                if panic_flag.swap(false, std::sync::atomic::Ordering::SeqCst) {
                    return Verdict::Timeout("panic-not-triggered".into(), format!("round {}: the armed storage clone was not reached within {:?}", ri, POSITIVE_BOUND));
                }
                if !closed {
                    return Verdict::Timeout(
                        "bad-connection-not-closed".into(),
                        format!("round {}: after its handler panicked the connection was not closed within {:?}", ri, POSITIVE_BOUND),
                    );
                }
                zombies.push(v);
            }
            _ => {
                let bytes: Vec<u8> = match way {
                    2 => command(&[b"PING"]),
                    3 => b"\xff\xfe garbage \x00\r\n".to_vec(),
                    4 => command(&[b"GET", b"\xff\xfe"]),
                    _ => command(&[b"GET", b"a", b"b"]),
                };
                let _ = v.send(&bytes);
                // the server closes; the client keeps its socket open
                if !v.read_to_end(POSITIVE_BOUND) {
                    return Verdict::Timeout(
                        "bad-connection-not-closed".into(),
                        format!("round {}: after a malformed command (way {}) the server did not close the connection within {:?}", ri, way, POSITIVE_BOUND),
                    );
                }
                zombies.push(v);
            }
        }
        // the freed slot serves the waiting client, or a new one
        match waiting {
            Some(mut w) => match w.read_replies(1, POSITIVE_BOUND) {
                Ok(_) => served.push(w),
                Err(e) => {
                    return Verdict::Timeout(
                        "slot-not-released".into(),
                        format!("round {}: after a connection ended (way {}) the waiting client was not served: {}", ri, way, e),
                    )
                }
            },
            None => match open_served(addr, &format!("r{}", ri)) {
                Ok(cl) => served.push(cl),
                Err(e) => {
                    return Verdict::Timeout(
                        "slot-not-released".into(),
                        format!("round {}: after a connection ended (way {}) a new client was not served: {}", ri, way, e),
                    )
                }
            },
        }
    }
    fired_total += crate::shim::accept_disarm();
    out.count("accept-faults-armed", armed_total as u64);
    out.count("accept-faults-fired", fired_total as u64);
    if armed_total > 0 {
        out.label(if fired_total == armed_total { "accept-faults-all-fired" } else { "accept-faults-some-overridden" });
    }
    // after everything has come and gone the full number can be served concurrently
    for s in served.drain(..) {
        s.close();
    }
    for z in zombies.drain(..) {
        z.close();
    }
    let mut fresh = Vec::new();
    for i in 0..n {
        match open_served(addr, &format!("final{}", i)) {
            Ok(cl) => fresh.push(cl),
            Err(e) => {
                return Verdict::Timeout(
                    "slot-leaked".into(),
                    format!(
                        "after {} rounds ({} faulty endings) only {} of {} connections can be served concurrently: {}",
                        c.rounds.len(),
                        faulty,
                        i,
                        n,
                        e
                    ),
                )
            }
        }
    }
    // and still not more than that
    if let Ok(mut w) = RawClient::connect(addr) {
        let _ = w.send(&command(&[b"GET", b"over"]));
        let t0 = Instant::now();
        while t0.elapsed() < SILENCE {
            w.pump(Duration::from_millis(20));
            if !w.rx.is_empty() {
                return Verdict::Fail(
                    "limit-exceeded".into(),
                    format!("at the end, with {} connections being served (max_connections = {}), one more client received a reply", n, n),
                );
            }
        }
        probes += 1;
        w.close();
    }
    for f in fresh {
        f.close();
    }
    out.nontrivial = faulty >= n && probes >= 1;
    out.count("over-limit-probes", probes as u64);
    out.count("faulty-endings", faulty as u64);
    Verdict::Ok
}

fn exec(c: &LimitCase, env: &Env) -> Outcome {
    let mut out = Outcome::pass();
    if c.n == 0 {
        return out;
    }
    // the wait after a failed accept: 5 ms, doubling (at most 4 failures in a row = 75 ms)
    crate::netfx::ACCEPT_MIN_BACKOFF_MS.store(5, std::sync::atomic::Ordering::SeqCst);
    crate::shim::accept_disarm();
    let dir = env.fresh_dir("netstore");
    let panic_flag = std::sync::Arc::new(std::sync::atomic::AtomicBool::new(false));
    let base_threads = crate::store::thread_count();
    let started = crate::store::open_caught(&net_store_cfg(2 << 30), &dir).and_then(|kv| {
        let storage = PanicKv { inner: kv.get_handle(), armed: panic_flag.clone() };
        ServerFx::start_with_storage(kv, storage, c.n as usize, 2, base_threads)
    });
    let srv = match started {
        Ok(s) => s,
        Err(e) => {
            out.inconclusive = Some(e);
            return out;
        }
    };
    let addr = srv.addr();
    let verdict = scenario(c, &addr, &panic_flag, &mut out);
    panic_flag.store(false, std::sync::atomic::Ordering::SeqCst);
    crate::shim::accept_disarm();
    match verdict {
        Verdict::Ok => {}
        Verdict::Fail(sig, msg) => out.set_fail(sig, msg),
        Verdict::Timeout(sig, msg) => {
            // a positive bound was missed: only a violation if this machine answers promptly on
            // an idle second server right now
            let dir2 = env.fresh_dir("netstore-calib");
            match ServerFx::start(&dir2, &net_store_cfg(2 << 30), 4, 2) {
                Ok(s2) => {
                    let t0 = Instant::now();
                    let ok = probe(&s2.addr(), b"calib", Duration::from_secs(2)).is_ok();
                    let dt = t0.elapsed();
                    s2.stop(Duration::from_secs(10));
                    if ok && dt < Duration::from_millis(500) {
                        out.set_fail(sig, msg);
                    } else {
                        out.inconclusive = Some(format!("{} (calibration round trip took {:?}, ok={})", msg, dt, ok));
                    }
                }
                Err(e) => out.inconclusive = Some(format!("{}; calibration server failed: {}", msg, e)),
            }
            let _ = std::fs::remove_dir_all(&dir2);
        }
    }
    crate::shim::accept_disarm();
    if !srv.stop(Duration::from_secs(10)) {
        out.inconclusive.get_or_insert("server did not stop within 10 s".into());
    }
    let _ = std::fs::remove_dir_all(&dir);
    out
}

pub fn prop() -> Prop<LimitCase> {
    Prop {
        id: "C15",
        level: "exploration",
        rule: "Cases: max_connections = N in 1..5 (6 thorough) and a scenario of N..3N+1 rounds against an in-process server. First N connections are opened and each gets a reply. Every round optionally probes with an over-limit client (connects, sends GET, must receive NOTHING for 300 ms; a third of these clients then abort their connection with RST while still in the listen backlog), then ends a generated served connection in a generated way (clean close; close with a half-sent frame; malformed/unknown command, garbage bytes, non-UTF-8 key, wrong argument count - the server closes and the client keeps its socket open; abrupt close with an unread reply; a panic of the connection's handler while it serves a well-formed GET - the server's storage is a wrapper around the real handle whose clone() panics once when armed, and Handler::run clones its storage per command on the connection's task), then the waiting client (or a new one) must be served within 10 s. A third of the cases also make the listener's accept() fail 1-4 times in a row (shim: EMFILE, ENFILE, ENOMEM, ENOBUFS, ECONNABORTED, EINTR; the connection stays in the backlog) at 1-3 generated moments - before the first connection or right before a served connection is ended, so that the accept following the freed slot fails; the server runs with min_backoff_ms = 5. Finally everything is closed, N fresh connections must all be served concurrently, and one more must again stay silent. Non-trivial: at least N faulty endings and at least one over-limit probe; distinct = distinct hash of the case.",
        assumptions: &[
            "the negative probe (silence for 300 ms) can only miss violations, never invent one: a reply needs an (N+1)-th handler",
            "a missed positive bound (10 s) counts as a violation only if a calibration round trip on an idle second server taken right afterwards is fast (< 500 ms), else the case is inconclusive",
            "no input is known to make a handler panic with the plain store handle on the repaired tree, so the 'handler panic' ending is produced through the server's storage type parameter: a wrapper that delegates set/get/del to the real handle and panics in clone() once when the harness arms it (only while all N slots are taken, so the listener is not cloning)",
        ],
        needs_shim: true,
        budget: |t| t.pick(480, 6000),
        shards: |_| 16,
        strategy,
        exec,
        max_shrink_iters: 60,
        replay_repeats: 3,
        watchdog_s: |t| t.pick(900, 7200),
    }
}
