//! C13 — compaction actually reclaims space and never grows the store.

use proptest::prelude::*;

use crate::{
    engine::{Env, Outcome, Prop, Tier},
    gen::{Hist, OpWeights},
    props::{c01::hist_labels, mergefam},
    store::{run_hist, Checks},
};

fn strategy(tier: Tier) -> BoxedStrategy<Hist> {
    mergefam::strategy(
        tier,
        OpWeights {
            set: 10,
            get: 0,
            del: 4,
            merge: 3,
            reopen: 1,
        },
        50,
    )
}

fn exec(h: &Hist, env: &Env) -> Outcome {
    let (f, st) = run_hist(
        h,
        &env.scratch,
        Checks {
            size: true,
            ..Checks::default()
        },
    );
    let mut out = Outcome::pass();
    out.fail = f;
    out.nontrivial = st.merges_multi_file > 0 && st.merges_with_dead > 0;
    hist_labels(&mut out, h, &st);
    if h.cfg.small_file == u64::MAX {
        out.label("all-files-eligible");
    }
    out.count("merges", st.merges as u64);
    out.count("merges-with-every-file-eligible-through-generated-thresholds", st.merges_all_eligible_by_truth as u64);
    out
}

pub fn prop() -> Prop<Hist> {
    Prop {
        id: "C13",
        level: "exploration",
        rule: "Cases are histories with merges under arbitrary thresholds; half of the cases force small_file = u64::MAX so that every non-empty file is eligible; in the other half eligibility of every non-empty file is decided per merge by ground truth (the documented strict thresholds applied to an independent scan of the files). Around every merge: total size of *.data must not grow; whenever every non-empty file was eligible the total must equal the sum of 25+|k|+|v| over the live pairs (as read before the merge), equal the measured size of a reference store freshly built from those pairs (differential, sampled), an independent decoder must find each live key exactly once and no tombstone, and a second merge must change neither total size nor any read. Non-trivial: a merge that removed at least two non-empty files containing at least one dead entry; distinct = distinct hash of the whole case.",
        assumptions: &["sizes are measured with the store open (the new empty active file counts 0 bytes)"],
        needs_shim: false,
        budget: |t| t.pick(48000, 250000),
        shards: |_| 16,
        strategy,
        exec,
        max_shrink_iters: 6000,
        replay_repeats: 1,
        watchdog_s: |t| t.pick(600, 3600),
    }
}
