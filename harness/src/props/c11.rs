//! C11 — concurrent clients see one linearizable store.

use std::{
    collections::BTreeMap,
    sync::{
        atomic::{AtomicBool, AtomicU64, Ordering::SeqCst},
        Arc, Barrier, Mutex,
    },
    time::{Duration, Instant},
};

use proptest::prelude::*;
use serde::{Deserialize, Serialize};

use crate::{
    engine::{catch, Env, Outcome, Prop, Tier},
    gen::{pick, StoreCfg},
    lin::{LKind, LOp},
    netfx::{RawClient, ServerFx},
    props::{
        c04::{check_lin, conc_cfg, conc_value, cop_strategy, has_overlap, plan_strategy, COp, Event, PlanSpec},
        c06::net_key_strategy,
    },
    resp::{command, F},
    shim::{self, PlanEntry},
    store::open_caught,
};

#[derive(Clone, Debug, Serialize, Deserialize)]
pub struct NetConcCase {
    pub cfg: StoreCfg,
    pub keys: Vec<String>,
    pub conns: Vec<Vec<COp>>,
    pub merges: u8,
    pub plan: Vec<PlanSpec>,
}

const SERVER_ROLE: u8 = 9;

fn strategy(tier: Tier) -> BoxedStrategy<NetConcCase> {
    let maxops = tier.pick(12usize, 24usize);
    (2usize..=6)
        .prop_flat_map(move |nc| {
            (
                conc_cfg(),
                proptest::collection::vec(net_key_strategy(), 2..=4),
                proptest::collection::vec(proptest::collection::vec(cop_strategy(), 3..=maxops), nc),
                0u8..4,
                plan_strategy(1),
            )
        })
        .prop_map(|(cfg, keys, conns, merges, plan)| NetConcCase {
            cfg,
            keys,
            conns,
            merges,
            plan,
        })
        .boxed()
}

fn exec(c: &NetConcCase, env: &Env) -> Outcome {
    let mut out = Outcome::pass();
    if c.keys.is_empty() || c.conns.is_empty() {
        return out;
    }
    let dir = env.fresh_dir("netstore");
    shim::register(&env.scratch);
    let base_threads = crate::store::thread_count();
    let mut cfg = c.cfg.clone();
    cfg.concurrency = cfg.concurrency.max(1);
    let kv = match open_caught(&cfg, &dir) {
        Ok(kv) => kv,
        Err(e) => return Outcome::failed("open-failed", e),
    };
    let srv = match ServerFx::start_with(kv, 16, 4, base_threads) {
        Ok(s) => s,
        Err(e) => {
            out.inconclusive = Some(e);
            return out;
        }
    };
    let addr = srv.addr();
    // distinct keys
    let mut keys: Vec<Vec<u8>> = Vec::new();
    let mut key_index = Vec::new();
    for k in &c.keys {
        let kb = k.as_bytes().to_vec();
        match keys.iter().position(|x| *x == kb) {
            Some(i) => key_index.push(i),
            None => {
                keys.push(kb);
                key_index.push(keys.len() - 1);
            }
        }
    }
    let keys = Arc::new(keys);
    let key_index = Arc::new(key_index);
    let mut expected: BTreeMap<u64, Vec<u8>> = BTreeMap::new();
    for (t, prog) in c.conns.iter().enumerate() {
        for (i, op) in prog.iter().enumerate() {
            if let COp::Set(_, cl, x) = op {
                let (id, v) = conc_value(t, i, *cl, *x);
                expected.insert(id, v);
            }
        }
    }
    let expected = Arc::new(expected);
    // all plan entries address the server side threads
    let plan: Vec<PlanEntry> = c
        .plan
        .iter()
        .map(|p| PlanEntry {
            role: SERVER_ROLE,
            class: p.class,
            nth: p.nth as u32,
            split: p.split && p.class <= 1,
            frac_pm: p.frac_pm as u32,
            m: p.m as u32,
            timeout_us: p.timeout_us as u64,
            fail_errno: 0,
        })
        .collect();
    shim::plan_install(plan);
    shim::set_default_role(SERVER_ROLE);

    let clock = Arc::new(AtomicU64::new(0));
    let stop = Arc::new(AtomicBool::new(false));
    let events: Arc<Mutex<Vec<Event>>> = Arc::new(Mutex::new(Vec::new()));
    let problems: Arc<Mutex<Vec<(String, String)>>> = Arc::new(Mutex::new(Vec::new()));
    let start = Arc::new(Barrier::new(c.conns.len() + 1));
    let mut joins = Vec::new();
    for (t, prog) in c.conns.iter().cloned().enumerate() {
        let (addr, keys, key_index, clock, stop, events, problems, expected, start) = (
            addr.clone(),
            keys.clone(),
            key_index.clone(),
            clock.clone(),
            stop.clone(),
            events.clone(),
            problems.clone(),
            expected.clone(),
            start.clone(),
        );
        joins.push(std::thread::spawn(move || {
            // harness threads do no tracked I/O, but make sure they are never perturbed
            shim::set_role(15);
            let cl = RawClient::connect(&addr);
            start.wait();
            let mut cl = match cl {
                Ok(c) => c,
                Err(e) => {
                    problems.lock().unwrap().push(("harness".into(), e));
                    return;
                }
            };
            let n = key_index.len();
            for (i, op) in prog.iter().enumerate() {
                if stop.load(SeqCst) {
                    break;
                }
                let (ki, bytes, id) = match op {
                    COp::Set(k, cls, x) => {
                        let ki = key_index[pick(*k, n)];
                        let (id, v) = conc_value(t, i, *cls, *x);
                        (ki, command(&[b"SET", &keys[ki], &v]), id)
                    }
                    COp::Get(k) => {
                        let ki = key_index[pick(*k, n)];
                        (ki, command(&[b"GET", &keys[ki]]), 0)
                    }
                    COp::Del(k) => {
                        let ki = key_index[pick(*k, n)];
                        (ki, command(&[b"DEL", &keys[ki]]), 0)
                    }
                };
                let inv = clock.fetch_add(1, SeqCst);
                if let Err(e) = cl.send(&bytes) {
                    problems.lock().unwrap().push(("connection-broken".into(), format!("connection {} op {}: {}", t, i, e)));
                    stop.store(true, SeqCst);
                    break;
                }
                let r = cl.read_replies(1, Duration::from_secs(10));
                let resp = clock.fetch_add(1, SeqCst);
                shim::op_done();
                let reply = match r {
                    Ok(mut v) => v.remove(0),
                    Err(e) => {
                        let sig = if e.starts_with("timeout") { "timeout" } else { "connection-broken" };
                        problems.lock().unwrap().push((sig.into(), format!("connection {} op {} {:?}: {}", t, i, op, e)));
                        stop.store(true, SeqCst);
                        break;
                    }
                };
                let kind = match (op, &reply) {
                    (COp::Set(..), F::Simple(s)) if s == "OK" => LKind::Set(id),
                    (COp::Get(_), F::Null) => LKind::Get(None),
                    (COp::Get(_), F::Bulk(b)) => {
                        let vid = if b.len() >= 8 { u64::from_le_bytes(b[..8].try_into().unwrap()) } else { u64::MAX };
                        if expected.get(&vid).map(|e| e.as_slice()) != Some(b.as_slice()) {
                            problems.lock().unwrap().push((
                                "corrupt-value".into(),
                                format!("connection {} op {}: GET returned {} bytes that are not any value ever written", t, i, b.len()),
                            ));
                            stop.store(true, SeqCst);
                            break;
                        }
                        LKind::Get(Some(vid))
                    }
                    (COp::Del(_), F::Int(0)) => LKind::Del(false),
                    (COp::Del(_), F::Int(1)) => LKind::Del(true),
                    (_, other) => {
                        problems.lock().unwrap().push((
                            "wrong-reply-type".into(),
                            format!("connection {} op {} {:?}: reply {} is not of the type the command implies", t, i, op, crate::props::c06::short_f(other)),
                        ));
                        stop.store(true, SeqCst);
                        break;
                    }
                };
                events.lock().unwrap().push(Event {
                    key: ki,
                    op: LOp {
                        inv,
                        resp,
                        kind,
                        who: (t as u32, i as u32),
                    },
                });
            }
            cl.close();
        }));
    }
    // merging side thread
    let merges_done = Arc::new(AtomicU64::new(0));
    {
        let (h, stop, problems, merges_done) = (srv.handle.clone(), stop.clone(), problems.clone(), merges_done.clone());
        let merges = c.merges;
        let total_ops: usize = c.conns.iter().map(|p| p.len()).sum();
        joins.push(std::thread::spawn(move || {
            shim::set_role(14);
            for mi in 0..merges {
                let target = (total_ops as u64 * (mi as u64 + 1)) / (merges as u64 + 1);
                let t0 = Instant::now();
                while shim::OPS_DONE.load(SeqCst) < target && t0.elapsed() < Duration::from_millis(300) && !stop.load(SeqCst) {
                    std::thread::sleep(Duration::from_micros(50));
                }
                if stop.load(SeqCst) {
                    break;
                }
                let hh = h.clone();
                match catch(move || hh.verif_merge().map_err(|e| e.to_string())) {
                    Ok(Ok(())) => {
                        merges_done.fetch_add(1, SeqCst);
                    }
                    Ok(Err(e)) => problems.lock().unwrap().push(("merge-error".into(), e)),
                    Err(p) => problems.lock().unwrap().push(("merge-panic".into(), p)),
                }
            }
        }));
    }
    start.wait();
    for j in joins {
        let _ = j.join();
    }
    shim::set_default_role(0);
    let fired = shim::plan_clear();
    let events_v = events.lock().unwrap().clone();
    let problems_v = problems.lock().unwrap().clone();
    out.count("commands", events_v.len() as u64);
    out.count("merges-completed", merges_done.load(SeqCst));
    out.count("perturbations-fired", fired as u64);
    let overlap = has_overlap(&events_v);
    if overlap {
        out.label("cross-connection-overlap-on-a-key");
    }
    if merges_done.load(SeqCst) > 0 {
        out.label("merge-ran");
    }
    if fired > 0 {
        out.label("perturbation-fired");
    }
    let rolled = srv.handle.verif_dump().active_fileid > 0;
    if rolled {
        out.label("rollover-or-merge");
    }
    out.nontrivial = overlap && rolled;
    if let Some((sig, msg)) = problems_v.first() {
        match sig.as_str() {
            "harness" => out.inconclusive = Some(msg.clone()),
            "timeout" => match crate::netfx::probe(&addr, b"probe", Duration::from_secs(5)) {
                // the server still answers others promptly: the reply is really missing
                Ok(_) => out.set_fail("reply-missing", msg.clone()),
                Err(e) => out.set_fail("server-unresponsive", format!("{}; a probe on a fresh connection also failed: {}", msg, e)),
            },
            _ => out.set_fail(sig.clone(), msg.clone()),
        }
    } else if let Err(e) = check_lin(&events_v, keys.len()) {
        out.set_fail("not-linearizable", e);
    }
    if !srv.stop(Duration::from_secs(10)) {
        out.inconclusive.get_or_insert("server did not stop within 10 s".into());
    }
    let _ = std::fs::remove_dir_all(&dir);
    out
}

pub fn prop() -> Prop<NetConcCase> {
    Prop {
        id: "C11",
        level: "exploration",
        rule: "Cases: 2-6 client connections with generated programs (3-12 commands quick / 24 thorough over SET/GET/single-key DEL on 2-4 shared UTF-8 keys, values unique per (connection,index), sizes small to 17 KiB) against an in-process server with 4 workers over a store with generated (small) max_file_size, a side thread calling verif_merge 0-3 times, and a generated perturbation plan (pauses and split writes at the store's file-system calls made on the server's blocking threads). Send/receive instants are stamped by one atomic counter; each connection has one outstanding command. Oracle: replies are well-formed and of the type the command implies, every read value is byte-identical to a written one, and each key's history is accepted by the Wing-Gong linearizability checker. Non-trivial: commands from different connections on one key overlap in real time and a rollover or merge happened during the case; distinct = distinct hash of the case.",
        assumptions: &[
            "tokio's scheduling is not controlled: interleavings are sampled by volume plus store-level perturbation",
            "a reply missing after 10 s is reported as reply-missing only when a probe on a fresh connection is answered",
        ],
        needs_shim: true,
        budget: |t| t.pick(3200, 50000),
        shards: |_| 16,
        strategy,
        exec,
        max_shrink_iters: 200,
        replay_repeats: 30,
        watchdog_s: |t| t.pick(900, 7200),
    }
}
