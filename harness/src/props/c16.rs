//! C16 — graceful shutdown terminates, keeps acknowledged data, and tears no reply.

use std::{
    collections::BTreeMap,
    sync::{Arc, Barrier},
    time::{Duration, Instant},
};

use bitcask::storage::KeyValueStorage;
use bytes::Bytes;
use proptest::prelude::*;
use serde::{Deserialize, Serialize};

use crate::{
    engine::{Env, Outcome, Prop, Tier},
    netfx::{probe, RawClient, ServerFx},
    props::c06::net_store_cfg,
    resp::{command, split_replies, F},
};

#[derive(Clone, Debug, Serialize, Deserialize)]
pub struct ClientScript {
    /// acknowledged SET round trips before the shutdown window
    pub pre_sets: u8,
    /// 0 idle, 1 part of a frame sent, 2 one complete (large) SET sent and reply not read yet,
    /// 3 several pipelined SETs, 4 pipelined GETs of a large value read slowly, 5 a client that
    /// finished (round trips, clean close) before the shutdown window opens, 6 a client that keeps
    /// the connection saturated with pipelined GETs (draining replies) until its stream ends,
    /// 7 one complete GET of a large value followed by part of the next request,
    /// 8 one complete SET whose execution on the blocking thread takes `slow_ms` (the server's
    /// storage is a wrapper that sleeps before delegating: a write queued behind a merge)
    pub kind: u8,
    pub size: u32,
    pub count: u8,
    pub frac: u16,
    pub read_gap_us: u16,
    #[serde(default)]
    pub slow_ms: u16,
    /// the client does not hang up when its stream ends: it keeps its socket open until
    /// Server::run has returned (or the bound has passed)
    #[serde(default)]
    pub linger: bool,
}

#[derive(Clone, Debug, Serialize, Deserialize)]
pub struct ShutCase {
    pub clients: Vec<ClientScript>,
    /// shutdown fires this long after the clients start their in-window sends
    pub delay_us: u16,
    /// max_connections of the server: 0 = 16 (far above the number of clients), 1 = exactly the
    /// number of clients (the accept loop is parked waiting for a slot when shutdown fires),
    /// 2 = one more than the number of clients
    #[serde(default)]
    pub limit: u8,
}

pub const KINDS: u8 = 9;

/// The server's storage for C16: the real handle, except that a SET of a key `slow:<ms>:...`
/// sleeps `<ms>` milliseconds before it is applied - a command that stays on the blocking thread
/// for a while, as a write does that queues behind a merge pass holding the writer lock.
#[derive(Clone)]
pub struct SlowKv {
    inner: bitcask::storage::bitcask::Handle,
}

impl KeyValueStorage for SlowKv {
    type Error = <bitcask::storage::bitcask::Handle as KeyValueStorage>::Error;
    fn set(&self, key: Bytes, value: Bytes) -> Result<(), Self::Error> {
        if key.starts_with(b"slow:") {
            let ms: u64 = std::str::from_utf8(&key[5..]).ok().and_then(|t| t.split(':').next()).and_then(|t| t.parse().ok()).unwrap_or(0);
            std::thread::sleep(Duration::from_millis(ms.min(5000)));
        }
        KeyValueStorage::set(&self.inner, key, value)
    }
    fn get(&self, key: Bytes) -> Result<Option<Bytes>, Self::Error> {
        KeyValueStorage::get(&self.inner, key)
    }
    fn del(&self, key: Bytes) -> Result<bool, Self::Error> {
        KeyValueStorage::del(&self.inner, key)
    }
}

fn slow_key(ci: usize, ms: u16) -> Vec<u8> {
    format!("slow:{}:c{}", ms, ci).into_bytes()
}

fn strategy(tier: Tier) -> BoxedStrategy<ShutCase> {
    let maxsize = tier.pick(300_000u32, 1_048_576u32);
    let script = (
        0u8..3,
        prop_oneof![1 => Just(0u8), 2 => Just(1u8), 3 => Just(2u8), 3 => Just(3u8), 3 => Just(4u8), 3 => Just(5u8), 2 => Just(6u8), 3 => Just(7u8), 2 => Just(8u8)],
        prop_oneof![2 => 1u32..200, 2 => 8000u32..70000, 2 => 100_000u32..maxsize],
        2u8..12,
        1u16..u16::MAX,
        prop_oneof![2 => Just(0u16), 1 => 50u16..2000],
        // mostly tens of milliseconds; now and then longer than a second
        (prop_oneof![30 => 1u16..25, 8 => 25u16..120, 1 => 1100u16..1400], prop_oneof![3 => Just(false), 1 => Just(true)]),
    )
        .prop_map(|(pre_sets, kind, size, count, frac, read_gap_us, (slow_ms, linger))| ClientScript {
            pre_sets,
            kind,
            size,
            count,
            frac,
            read_gap_us,
            slow_ms,
            linger,
        });
    (
        proptest::collection::vec(script, 1..=6),
        prop_oneof![1 => Just(0u16), 3 => 1u16..1500, 2 => 1500u16..8000],
        prop_oneof![2 => Just(0u8), 2 => Just(1u8), 1 => Just(2u8)],
    )
        .prop_map(|(clients, delay_us, limit)| ShutCase { clients, delay_us, limit })
        .boxed()
}

#[derive(Clone, Debug)]
enum Cmd {
    Set(Vec<u8>, Vec<u8>),
    Get(Vec<u8>),
}

fn value(client: usize, idx: usize, len: usize) -> Vec<u8> {
    let mut v = format!("c{}-{}-", client, idx).into_bytes();
    let mut x = (client as u64 + 1) * 1_000_003 + idx as u64;
    while v.len() < len.max(8) {
        x ^= x << 13;
        x ^= x >> 7;
        x ^= x << 17;
        v.push((x >> 11) as u8);
    }
    v
}

struct ClientReport {
    /// complete commands sent, in order
    sent: Vec<Cmd>,
    replies: Vec<F>,
    trailing: usize,
    ended: bool,
    reset: bool,
    error: Option<String>,
    mid: bool,
    /// flooding client: replies are not matched against a finite request list
    flood: bool,
    /// this (lingering) client has already announced that it finished reading
    counted: bool,
}

fn client_thread(ci: usize, s: ClientScript, addr: String, go: Arc<Barrier>, released: Arc<std::sync::atomic::AtomicBool>, done: Arc<std::sync::atomic::AtomicUsize>) -> ClientReport {
    // `done` counts the clients that have finished reading (a lingering client counts before it
    // starts to linger, every other one when it returns)
    let rep = client_thread_inner(ci, s, addr, go, released, done.clone());
    if !rep.counted {
        done.fetch_add(1, std::sync::atomic::Ordering::SeqCst);
    }
    rep
}

fn client_thread_inner(ci: usize, s: ClientScript, addr: String, go: Arc<Barrier>, released: Arc<std::sync::atomic::AtomicBool>, done: Arc<std::sync::atomic::AtomicUsize>) -> ClientReport {
    let mut rep = ClientReport {
        sent: Vec::new(),
        replies: Vec::new(),
        trailing: 0,
        ended: false,
        reset: false,
        error: None,
        mid: false,
        flood: false,
        counted: false,
    };
    let key = format!("c{}k", ci).into_bytes();
    let key2 = format!("c{}big", ci).into_bytes();
    let mut cl = match RawClient::connect(&addr) {
        Ok(c) => c,
        Err(e) => {
            rep.error = Some(e);
            go.wait();
            return rep;
        }
    };
    let mut idx = 0;
    for _ in 0..s.pre_sets {
        let v = value(ci, idx, 16);
        idx += 1;
        if cl.send(&command(&[b"SET", &key, &v])).is_err() {
            break;
        }
        rep.sent.push(Cmd::Set(key.clone(), v));
        match cl.read_replies(1, Duration::from_secs(10)) {
            Ok(r) => rep.replies.extend(r),
            Err(e) => {
                rep.error = Some(format!("pre-shutdown SET got no reply: {}", e));
                go.wait();
                return rep;
            }
        }
    }
    if s.kind % KINDS == 4 || s.kind % KINDS == 7 {
        // the large value the slow reader will fetch (acknowledged before the window)
        let v = value(ci, idx, s.size as usize);
        idx += 1;
        let _ = cl.send(&command(&[b"SET", &key2, &v]));
        rep.sent.push(Cmd::Set(key2.clone(), v));
        match cl.read_replies(1, Duration::from_secs(10)) {
            Ok(r) => rep.replies.extend(r),
            Err(e) => {
                rep.error = Some(format!("pre-shutdown SET got no reply: {}", e));
                go.wait();
                return rep;
            }
        }
    }
    if s.kind % KINDS == 5 {
        // finished before the window: everything it sent was acknowledged; close cleanly
        cl.close();
        rep.ended = true;
        go.wait();
        return rep;
    }
    go.wait();
    match s.kind % KINDS {
        0 => {}
        1 => {
            let v = value(ci, idx, (s.size as usize).min(70000));
            let b = command(&[b"SET", &key, &v]);
            let keep = 1 + ((s.frac as usize * (b.len() - 1)) >> 16);
            let _ = cl.send(&b[..keep.min(b.len() - 1)]);
            rep.mid = true;
        }
        2 => {
            let v = value(ci, idx, s.size as usize);
            let _ = cl.send(&command(&[b"SET", &key, &v]));
            rep.sent.push(Cmd::Set(key.clone(), v));
            rep.mid = true;
        }
        3 => {
            let mut all = Vec::new();
            for j in 0..s.count {
                let len = if j % 3 == 0 { (s.size as usize).min(70000) } else { 24 };
                let v = value(ci, idx, len);
                idx += 1;
                all.extend_from_slice(&command(&[b"SET", &key, &v]));
                rep.sent.push(Cmd::Set(key.clone(), v));
            }
            let _ = cl.send(&all);
            rep.mid = true;
        }
        6 => {
            // flood: batches of pipelined GETs, replies drained, until the stream ends
            rep.mid = true;
            let batch: Vec<u8> = (0..64).flat_map(|_| command(&[b"GET", &key])).collect();
            let t0 = Instant::now();
            let mut sent_batches = 0usize;
            while !cl.eof && t0.elapsed() < Duration::from_secs(12) {
                if cl.send(&batch).is_err() {
                    break;
                }
                sent_batches += 1;
                cl.pump(Duration::from_micros(200));
            }
            // GET replies do not change the store; the number answered is whatever arrived
            let _ = sent_batches;
            rep.flood = true;
        }
        8 => {
            let v = value(ci, idx, (s.size as usize).min(2000));
            let k = slow_key(ci, s.slow_ms);
            let _ = cl.send(&command(&[b"SET", &k, &v]));
            rep.sent.push(Cmd::Set(k, v));
            rep.mid = true;
        }
        7 => {
            let mut all = command(&[b"GET", &key2]);
            rep.sent.push(Cmd::Get(key2.clone()));
            let next = command(&[b"SET", &key, b"never-completed"]);
            let keep = 1 + ((s.frac as usize * (next.len() - 1)) >> 16);
            all.extend_from_slice(&next[..keep.min(next.len() - 1)]);
            let _ = cl.send(&all);
            rep.mid = true;
        }
        _ => {
            // enough replies to fill every socket buffer between server and client (several
            // MB on loopback), so that the handler is parked inside a write when shutdown fires
            let n = (s.count as usize) * 6;
            let mut all = Vec::new();
            for _ in 0..n {
                all.extend_from_slice(&command(&[b"GET", &key2]));
                rep.sent.push(Cmd::Get(key2.clone()));
            }
            let _ = cl.send(&all);
            rep.mid = true;
            // read late
            std::thread::sleep(Duration::from_micros(500 + s.read_gap_us as u64 * 4));
        }
    }
    // read to the end of the stream (slowly if asked to)
    let t0 = Instant::now();
    while !cl.eof && t0.elapsed() < Duration::from_secs(12) {
        cl.pump(Duration::from_millis(20));
        if s.read_gap_us > 0 {
            std::thread::sleep(Duration::from_micros(s.read_gap_us as u64));
        }
    }
    rep.ended = cl.eof;
    rep.reset = cl.reset;
    match split_replies(&cl.rx[cl.parsed..]) {
        Ok((r, trailing)) => {
            rep.replies.extend(r);
            rep.trailing = trailing;
        }
        Err(e) => rep.error = Some(format!("malformed reply bytes: {}", e)),
    }
    if s.linger {
        // a passive client: it does not hang up because its stream ended
        done.fetch_add(1, std::sync::atomic::Ordering::SeqCst);
        rep.counted = true;
        let t0 = Instant::now();
        while !released.load(std::sync::atomic::Ordering::SeqCst) && t0.elapsed() < Duration::from_secs(30) {
            std::thread::sleep(Duration::from_millis(1));
        }
    }
    cl.close();
    rep
}

fn exec(c: &ShutCase, env: &Env) -> Outcome {
    let mut out = Outcome::pass();
    if c.clients.is_empty() {
        return out;
    }
    let dir = env.fresh_dir("netstore");
    let max_connections = match c.limit % 3 {
        0 => 16,
        1 => c.clients.len(),
        _ => c.clients.len() + 1,
    };
    out.label(format!("limit-mode-{}", c.limit % 3));
    crate::netfx::MEASURE_OPEN_AT_RETURN.store(true, std::sync::atomic::Ordering::SeqCst);
    let base_threads = crate::store::thread_count();
    let started = crate::store::open_caught(&net_store_cfg(2 << 30), &dir).and_then(|kv| {
        let storage = SlowKv { inner: kv.get_handle() };
        ServerFx::start_with_storage(kv, storage, max_connections, 4, base_threads)
    });
    let mut srv = match started {
        Ok(s) => s,
        Err(e) => {
            out.inconclusive = Some(e);
            return out;
        }
    };
    let addr = srv.addr();
    let go = Arc::new(Barrier::new(c.clients.len() + 1));
    let released = Arc::new(std::sync::atomic::AtomicBool::new(false));
    let done = Arc::new(std::sync::atomic::AtomicUsize::new(0));
    let lingering = c.clients.iter().filter(|s| s.linger && s.kind % KINDS != 5).count();
    if lingering > 0 {
        out.label("clients-that-stay-connected-after-their-stream-ended");
    }
    let mut joins = Vec::new();
    for (ci, s) in c.clients.iter().cloned().enumerate() {
        let (a, g, r, d) = (addr.clone(), go.clone(), released.clone(), done.clone());
        joins.push(std::thread::spawn(move || client_thread(ci, s, a, g, r, d)));
    }
    go.wait();
    if c.delay_us > 0 {
        std::thread::sleep(Duration::from_micros(c.delay_us as u64));
    }
    srv.fire_shutdown();
    // every client finishes its script within 12 s and closes - except the lingering ones, which
    // keep their sockets open until run() has returned: run() must return within bounded time
    // whatever the clients are doing
    let returned = if lingering > 0 {
        // until run() has returned, or 5 s after the last client finished reading
        let mut all_done_at: Option<Instant> = None;
        loop {
            if srv.wait_returned(Duration::from_millis(1)) {
                break true;
            }
            if all_done_at.is_none() && done.load(std::sync::atomic::Ordering::SeqCst) >= c.clients.len() {
                all_done_at = Some(Instant::now());
            }
            if matches!(all_done_at, Some(t) if t.elapsed() > Duration::from_secs(5)) {
                break false;
            }
        }
    } else {
        false
    };
    let gave_up = lingering > 0 && !returned;
    released.store(true, std::sync::atomic::Ordering::SeqCst);
    let reports: Vec<ClientReport> = joins.into_iter().map(|j| j.join().expect("client thread")).collect();
    let returned = returned || (!gave_up && srv.wait_returned(Duration::from_secs(10)));

    let mut mid = false;
    for (ci, r) in reports.iter().enumerate() {
        out.label(format!("client-kind-{}", c.clients[ci].kind % KINDS));
        if r.mid {
            mid = true;
        }
        if r.reset {
            out.label("stream-ended-by-reset");
        }
    }
    out.nontrivial = mid;

    let mut verdict: Option<(String, String, bool)> = None; // (sig, msg, timing-dependent)
    if !returned {
        verdict = Some((
            "run-did-not-return".into(),
            format!(
                "{} Server::run had not returned",
                if lingering > 0 {
                    format!("5 s after every client had read to the end of its stream ({} of them kept their socket open afterwards, the others closed)", lingering)
                } else {
                    "10 s after every client had read to the end of its stream and closed,".to_string()
                }
            ),
            true,
        ));
    }
    let open_at_return = srv.open_at_return.load(std::sync::atomic::Ordering::SeqCst);
    if verdict.is_none() && returned && open_at_return > 0 {
        // a handler closes its socket before it lets go of the completion channel, and the
        // listening socket is closed inside run(): when run() returns nothing may be open
        verdict = Some((
            "run-returned-with-open-connections".into(),
            format!(
                "at the instant Server::run returned, {} server-side connection(s) were still open (ESTABLISHED/CLOSE_WAIT in /proc/net/tcp): run() did not wait until the connections had wound down (max_connections = {}, {} clients)",
                open_at_return,
                max_connections,
                c.clients.len()
            ),
            false,
        ));
    }
    if verdict.is_none() {
        for (ci, r) in reports.iter().enumerate() {
            if let Some(e) = &r.error {
                if e.contains("malformed") {
                    verdict = Some(("malformed-reply".into(), format!("client {}: {}", ci, e), false));
                } else {
                    out.inconclusive = Some(format!("client {}: {}", ci, e));
                }
                break;
            }
            if !r.ended {
                verdict = Some((
                    "connection-not-closed".into(),
                    format!("client {} (kind {}): the server did not end the stream within 12 s after the shutdown signal", ci, c.clients[ci].kind % KINDS),
                    true,
                ));
                break;
            }
            // a client that was idle (everything it sent had been answered) leaves no unread input
            // in the server's socket, so the server's close is an orderly one: end of stream, never
            // a connection reset
            // (only for clients that had at least one round trip: a connection that is still in the
            // listen backlog when the listener closes is reset by the kernel, legitimately)
            if c.clients[ci].kind % KINDS == 0 && r.reset && !r.replies.is_empty() {
                verdict = Some((
                    "idle-connection-reset".into(),
                    format!(
                        "client {} was idle when shutdown fired (all {} requests answered, nothing unread on the server side) but its stream ended with a connection reset instead of end-of-stream",
                        ci,
                        r.sent.len()
                    ),
                    false,
                ));
                break;
            }
            // complete replies followed by end of stream: a partial reply before a clean EOF is torn
            if r.trailing > 0 && !r.reset {
                verdict = Some((
                    "torn-reply".into(),
                    format!(
                        "client {} (kind {}): after {} complete replies the stream ended cleanly with {} bytes of an incomplete reply",
                        ci,
                        c.clients[ci].kind % KINDS,
                        r.replies.len(),
                        r.trailing
                    ),
                    false,
                ));
                break;
            }
            if r.flood {
                // every reply of the flood answers GET <key>: the last acknowledged value or null
                continue;
            }
            if r.replies.len() > r.sent.len() {
                verdict = Some((
                    "too-many-replies".into(),
                    format!("client {}: {} replies for {} complete commands", ci, r.replies.len(), r.sent.len()),
                    false,
                ));
                break;
            }
            // replies are the right ones, in order
            let mut m: BTreeMap<Vec<u8>, Vec<u8>> = BTreeMap::new();
            for (i, cmd) in r.sent.iter().enumerate() {
                let want = match cmd {
                    Cmd::Set(k, v) => {
                        m.insert(k.clone(), v.clone());
                        F::Simple("OK".into())
                    }
                    Cmd::Get(k) => match m.get(k) {
                        Some(v) => F::Bulk(v.clone()),
                        None => F::Null,
                    },
                };
                if let Some(got) = r.replies.get(i) {
                    if *got != want {
                        verdict = Some((
                            "wrong-reply".into(),
                            format!("client {}: reply #{} is {} but should be {}", ci, i, crate::props::c06::short_f(got), crate::props::c06::short_f(&want)),
                            false,
                        ));
                        break;
                    }
                }
            }
            if verdict.is_some() {
                break;
            }
        }
    }
    if verdict.is_none() && returned {
        // every command whose reply was received is reflected in the store: for each client the
        // store equals the state after its first j commands for some j >= acknowledged
        for (ci, r) in reports.iter().enumerate() {
            let acked = r.replies.len().min(r.sent.len());
            let keys: Vec<Vec<u8>> = vec![format!("c{}k", ci).into_bytes(), format!("c{}big", ci).into_bytes(), slow_key(ci, c.clients[ci].slow_ms)];
            let mut store: Vec<Option<Vec<u8>>> = Vec::new();
            for k in &keys {
                match srv.handle.get(Bytes::from(k.clone())) {
                    Ok(v) => store.push(v.map(|b| b.to_vec())),
                    Err(e) => {
                        verdict = Some(("store-error".into(), format!("handle get failed after shutdown: {}", e), false));
                        break;
                    }
                }
            }
            if verdict.is_some() {
                break;
            }
            let mut ok = false;
            let mut m: BTreeMap<Vec<u8>, Vec<u8>> = BTreeMap::new();
            for j in 0..=r.sent.len() {
                if j > 0 {
                    if let Cmd::Set(k, v) = &r.sent[j - 1] {
                        m.insert(k.clone(), v.clone());
                    }
                }
                if j >= acked && keys.iter().zip(store.iter()).all(|(k, s)| m.get(k) == s.as_ref()) {
                    ok = true;
                    break;
                }
            }
            if !ok {
                verdict = Some((
                    "acknowledged-command-not-in-store".into(),
                    format!(
                        "client {} (kind {}): {} commands sent, {} acknowledged; after shutdown the store holds {:?} (lengths) for its keys, which is not the state after any prefix of at least the acknowledged commands",
                        ci,
                        c.clients[ci].kind % KINDS,
                        r.sent.len(),
                        acked,
                        store.iter().map(|s| s.as_ref().map(|v| v.len())).collect::<Vec<_>>()
                    ),
                    false,
                ));
                break;
            }
        }
    }
    let stopped = srv.stop(Duration::from_secs(if returned { 10 } else { 1 }));
    if let Some((sig, msg, timing)) = verdict {
        if timing {
            // liveness bound missed: calibrate on an idle second server
            let dir2 = env.fresh_dir("netstore-calib");
            let calib = ServerFx::start(&dir2, &net_store_cfg(2 << 30), 4, 2).ok().map(|s2| {
                let t0 = Instant::now();
                let ok = probe(&s2.addr(), b"calib", Duration::from_secs(2)).is_ok();
                let dt = t0.elapsed();
                s2.stop(Duration::from_secs(10));
                ok && dt < Duration::from_millis(500)
            });
            let _ = std::fs::remove_dir_all(&dir2);
            if calib == Some(true) {
                out.set_fail(sig, msg);
            } else {
                out.inconclusive = Some(msg);
            }
        } else {
            out.set_fail(sig, msg);
        }
    } else if !stopped {
        out.inconclusive.get_or_insert("server thread did not stop".into());
    }
    if !returned {
        // the server thread is still running inside this process
        out.fatal = out.fail.is_some();
    }
    let _ = std::fs::remove_dir_all(&dir);
    out
}

pub fn prop() -> Prop<ShutCase> {
    Prop {
        id: "C16",
        level: "exploration",
        rule: "Cases: 1-6 clients against an in-process server, each scripted into a state at the moment shutdown fires: idle after 0-2 acknowledged SETs; part of a frame sent (generated fraction); one complete SET with a value up to 300 KiB (1 MiB thorough) sent and the reply not yet read; 2-11 pipelined SETs; 12-66 pipelined GETs of a large value (up to 20 MB of replies, more than the socket buffers hold) read late and slowly; or already finished (acknowledged round trips and a clean close before the window); a client that keeps the connection saturated with batches of pipelined GETs until its stream ends; one complete GET of a large value followed by part of the next request; one complete SET whose execution on the blocking thread takes 1-120 ms, now and then 1.1-1.4 s (the server's storage is a wrapper around the real handle that sleeps before a SET of a key named slow:<ms>:..., standing for a write queued behind a merge). max_connections is 16, exactly the number of clients (the accept loop is parked waiting for a slot when shutdown fires) or one more. The shutdown signal fires a generated 0-8 ms after the clients start those sends. Every client then reads to the end of its stream and closes; a quarter of the clients are passive and keep their socket open after their stream has ended, until run has returned (which must happen within 5 s after the last client finished reading). Oracles: Server::run returns within 10 s after the last client closed; at the instant run returns (measured on the server's own task before anything else is dropped) no server-side socket of the server's port is still ESTABLISHED or CLOSE_WAIT in /proc/net/tcp - run waits until the connections have wound down; the server ends every stream within 12 s; each client's bytes parse with a strict reader into complete, correct replies in order followed by end of stream (a partial reply before a clean EOF is a torn reply; after a connection reset trailing bytes are not judged); after run returned, for each client the store equals the state after its first j complete commands for some j >= the number of replies it received. Non-trivial: shutdown fired while at least one client was mid-frame or mid-command; distinct = distinct hash of the case.",
        assumptions: &[
            "a client that never reads is not generated (the server may be parked in a write to it); a client that has read everything and simply stays connected is: run() must return whatever the clients are doing",
            "end of stream is accepted as EOF or connection reset (a server closing a socket with unread pipelined requests sends RST, which may purge data the client had not read yet), except for clients that were idle at the shutdown: nothing of theirs is unread, so their stream must end with EOF",
            "missed liveness bounds count as violations only after a fast calibration round trip on an idle second server",
        ],
        needs_shim: false,
        budget: |t| t.pick(9600, 60000),
        shards: |_| 16,
        strategy,
        exec,
        max_shrink_iters: 60,
        replay_repeats: 20,
        watchdog_s: |t| t.pick(900, 7200),
    }
}
