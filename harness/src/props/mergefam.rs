//! Shared generator for the merge family (C05, C12, C13, C19): histories with merges under
//! arbitrary thresholds, many small files, filler keys that keep old files mostly live.

use proptest::prelude::*;

use crate::{
    engine::Tier,
    gen::{
        dead_bytes_strategy, frag_strategy, key_strategy, op_strategy, small_file_strategy, Hist, KeySpec, Op, OpWeights, StoreCfg,
        ValSizes, ValSpec,
    },
};

fn cfg() -> BoxedStrategy<StoreCfg> {
    (
        prop_oneof![
            1 => Just(0u64),
            6 => 60u64..400,
            4 => 400u64..1500,
            1 => 3000u64..9000,
            1 => Just(2u64 << 30),
        ],
        prop_oneof![Just(0usize), Just(1), Just(2), Just(256)],
        prop_oneof![Just(0usize), Just(1), Just(4)],
        frag_strategy(),
        dead_bytes_strategy(),
        small_file_strategy(),
    )
        .prop_map(|(max_file_size, readers_cache, concurrency, frag, dead_bytes, small_file)| StoreCfg {
            max_file_size,
            readers_cache,
            concurrency,
            frag,
            dead_bytes,
            small_file,
            sync_always: false,
            sync_interval_ms: 0,
        })
        .boxed()
}

/// `all_eligible`: None = arbitrary thresholds, Some(p) = with probability p percent force
/// small_file = u64::MAX (every non-empty file eligible).
pub fn strategy(tier: Tier, w: OpWeights, all_eligible_pct: u32) -> BoxedStrategy<Hist> {
    let maxops = tier.pick(70usize, 220usize);
    let sizes = prop_oneof![
        5 => Just(ValSizes::Small),
        2 => Just(ValSizes::Mixed),
    ];
    (
        cfg(),
        proptest::collection::vec(key_strategy(false), 4..=20),
        sizes,
        // preload: set every pool key first so that early files are mostly live
        any::<bool>(),
        0u32..100,
    )
        .prop_flat_map(move |(cfg, keys, sizes, preload, elig)| {
            let nkeys = keys.len();
            (
                Just(cfg),
                Just(keys),
                proptest::collection::vec(op_strategy(w, sizes), 1..maxops),
                proptest::collection::vec((1u32..60, any::<u8>()), nkeys),
                Just(preload),
                Just(elig),
            )
        })
        .prop_map(move |(mut cfg, keys, ops, pre, preload, elig)| {
            if elig < all_eligible_pct {
                cfg.small_file = u64::MAX;
            }
            let mut all = Vec::new();
            if preload {
                let n = keys.len();
                for (i, (len, seed)) in pre.into_iter().enumerate() {
                    // index byte that `pick` maps back to key i
                    let kb = ((i * 256 + 255) / n).min(255) as u8;
                    all.push(Op::Set(kb, ValSpec { len, seed }));
                }
            }
            all.extend(ops);
            Hist { cfg, keys, ops: all }
        })
        .boxed()
}

#[allow(dead_code)]
pub fn keyspec(len: u32, seed: u8) -> KeySpec {
    KeySpec { len, seed }
}
