//! C20 — a failed disk operation is reported and leaves the store consistent.
//!
//! For every generated workload the fault sites (every tracked create, write, fsync, unlink) are
//! enumerated from a fault-free recorded run; the workload is then re-run once per site and
//! fault kind with that single transient fault injected by the shim.

use proptest::prelude::*;
use serde::{Deserialize, Serialize};

use crate::{
    engine::{hash64, panic_site, Env, Failure, Outcome, Prop, Tier},
    gen::{pick, val_bytes, Hist, Op, OpWeights},
    props::c03::{short_op, workload},
    rec::{run_recorded, trunc, OpApplier, OpRes},
    shim::{self, Kind},
    store::Model,
};

#[derive(Clone, Debug, Serialize, Deserialize)]
pub struct FaultCase {
    pub hist: Hist,
    /// the faulted runs issue set/get/del as RESP commands through an in-process server over
    /// the store (the way a user of the server meets a failing disk): an error reply or a
    /// connection ended without a reply is the operation's error
    #[serde(default)]
    pub via_resp: bool,
}

fn strategy(tier: Tier) -> BoxedStrategy<FaultCase> {
    let w = OpWeights {
        set: 10,
        get: 2,
        del: 4,
        merge: 3,
        reopen: 1,
    };
    // a quarter of the workloads run under arbitrary merge thresholds (merges select arbitrary
    // subsets of files)
    let wl = prop_oneof![
        3 => workload(tier, false, w, 3, 12, 30),
        1 => crate::props::c03::workload_partial(tier, false, w, 3, 12, 30),
    ];
    (prop_oneof![11 => any::<bool>().prop_map(|b| if b { 1u8 } else { 0u8 }), 1 => Just(2u8)], wl, prop_oneof![3 => Just(false), 1 => Just(true)])
        .prop_map(|(sync, mut hist, via_resp)| {
            hist.cfg.sync_always = sync == 1;
            // one workload in twelve runs its faulted runs with interval sync (1 ms) and waits a
            // few ticks after the operation that met the fault
            hist.cfg.sync_interval_ms = if sync == 2 { 1 } else { 0 };
            if via_resp {
                // the RESP commands take keys that are UTF-8 strings: keep the fills that are
                // (NUL bytes, CR/LF, text) and a last byte below 0x80
                for k in hist.keys.iter_mut() {
                    k.seed = (k.seed % 8) * 6 + [0u8, 1, 3][(k.seed % 3) as usize];
                }
            }
            FaultCase { hist, via_resp }
        })
        .boxed()
}

#[derive(Clone, Debug)]
struct Site {
    call: &'static str,
    file_kind: &'static str,
    op_class: String,
    is_write: bool,
    multi: bool,
}

fn op_class(hist: &Hist, op: Option<usize>) -> String {
    match op {
        None => "open".to_string(),
        Some(i) => match &hist.ops[i] {
            Op::Set(k, v) => {
                let klen = hist.keys[pick(*k, hist.keys.len())].len as usize;
                if 25 + klen + v.len as usize > 8192 {
                    "set-big".to_string()
                } else {
                    "set".to_string()
                }
            }
            Op::Del(_) => "del".to_string(),
            Op::Get(_) => "get".to_string(),
            Op::Merge => "merge".to_string(),
            Op::Reopen => "reopen".to_string(),
        },
    }
}

/// The model with the either-or for the key of the failed op.
struct FaultModel {
    model: Model,
    /// (key, alternative value) allowed until the next acknowledged op on that key
    alt: Option<(Vec<u8>, Option<Vec<u8>>)>,
}

impl FaultModel {
    fn read_ok(&self, k: &[u8], got: &Option<Vec<u8>>) -> bool {
        if self.model.get(k) == got.as_ref() {
            return true;
        }
        matches!(&self.alt, Some((ak, av)) if ak.as_slice() == k && av == got)
    }
}

struct Symptom {
    name: String,
    msg: String,
}

/// Run the workload with the armed fault; returns the symptom of the first discrepancy.
fn faulted_run(hist: &Hist, dir: &std::path::Path, keys: &[Vec<u8>], via_resp: bool) -> (Option<Symptom>, Option<i64>) {
    let mut ap = OpApplier::new(hist, dir);
    ap.via_resp = via_resp && keys.iter().all(|k| std::str::from_utf8(k).is_ok());
    let mut fm = FaultModel {
        model: Model::new(),
        alt: None,
    };
    let n = keys.len();
    let mut fired_op: Option<i64> = None;
    let sym = |name: &str, msg: String| Some(Symptom { name: name.to_string(), msg });

    // initial open: site 0 is the creation of the active file
    shim::marker(usize::MAX >> 1, false);
    let first = ap.open();
    shim::marker(usize::MAX >> 1, true);
    if let Err(e) = first {
        if !shim::inject_fired() {
            return (sym("open-fails", format!("initial open failed without a fault: {}", e)), None);
        }
        fired_op = Some(-2);
        if e.contains("panicked") {
            return (sym("panic", format!("initial open: {}", e)), fired_op);
        }
        if let Err(e2) = ap.open() {
            return (sym("reopen-fails", format!("open failed again after the transient fault in the initial open: {}", e2)), fired_op);
        }
    } else if shim::inject_fired() {
        return (sym("fault-swallowed", "the initial open succeeded although one of its calls failed".into()), Some(-2));
    }

    for (i, op) in hist.ops.iter().enumerate() {
        let before_fired = shim::inject_fired();
        shim::marker(i, false);
        let got = ap.apply(i, op);
        shim::marker(i, true);
        let fired_now = !before_fired && shim::inject_fired();
        if fired_now {
            fired_op = Some(i as i64);
            if hist.cfg.sync_interval_ms > 0 && !hist.cfg.sync_always {
                // let the sync timer tick a few times before the next operation
                std::thread::sleep(std::time::Duration::from_millis(4 * hist.cfg.sync_interval_ms + 2));
            }
        }
        if let OpRes::Panic(p) = &got {
            return (
                sym(&format!("panic({})", panic_site(p)), format!("op #{} {}: panicked: {}", i, short_op(op), p)),
                fired_op,
            );
        }
        if fired_now {
            // the op on whose behalf the failing call was made must report an error
            match &got {
                OpRes::Err(_) => {}
                other => {
                    return (
                        sym(
                            "fault-swallowed",
                            format!("op #{} {}: a file-system call made for it failed but it returned {}", i, short_op(op), trunc(other)),
                        ),
                        fired_op,
                    )
                }
            }
            match op {
                Op::Set(ki, vs) => {
                    let k = keys[pick(*ki, n)].clone();
                    fm.alt = Some((k, Some(val_bytes(vs, i as u64))));
                }
                Op::Del(ki) => {
                    let k = keys[pick(*ki, n)].clone();
                    fm.alt = Some((k, None));
                }
                Op::Reopen => {
                    // the transient fault is over: opening again must work
                    if let Err(e) = ap.open() {
                        return (sym("reopen-fails", format!("op #{} Reopen: open failed again after the transient fault: {}", i, e)), fired_op);
                    }
                }
                _ => {}
            }
        } else {
            // every other op must succeed and agree with the model
            match (op, &got) {
                (_, OpRes::Err(e)) => {
                    let kind = if e.contains("File exists") {
                        "AlreadyExists"
                    } else if e.contains("No such file") {
                        "NotFound"
                    } else {
                        "Other"
                    };
                    let name = if matches!(op, Op::Get(_)) { "get-error".to_string() } else { format!("later-op-error({})", kind) };
                    return (
                        sym(&name, format!("op #{} {}: failed although no call made for it was faulted: {}", i, short_op(op), e)),
                        fired_op,
                    );
                }
                (Op::Set(ki, vs), OpRes::Ok) => {
                    let k = keys[pick(*ki, n)].clone();
                    if matches!(&fm.alt, Some((ak, _)) if *ak == k) {
                        fm.alt = None;
                    }
                    fm.model.insert(k, val_bytes(vs, i as u64));
                }
                (Op::Del(ki), OpRes::Del(b)) => {
                    let k = keys[pick(*ki, n)].clone();
                    let m = fm.model.contains_key(&k);
                    let alt_ok = matches!(&fm.alt, Some((ak, av)) if *ak == k && av.is_some() == *b);
                    if *b != m && !alt_ok {
                        return (
                            sym(
                                if fired_op.is_some() { "wrong-value-same-key" } else { "wrong-result-no-fault" },
                                format!("op #{} {}: returned {} but the model says {}", i, short_op(op), b, m),
                            ),
                            fired_op,
                        );
                    }
                    if matches!(&fm.alt, Some((ak, _)) if *ak == k) {
                        fm.alt = None;
                    }
                    fm.model.remove(&k);
                }
                (Op::Get(ki), OpRes::Got(v)) => {
                    let k = &keys[pick(*ki, n)];
                    if !fm.read_ok(k, v) {
                        let same = matches!(&fm.alt, Some((ak, _)) if ak == k);
                        return (
                            sym(
                                if same { "wrong-value-same-key" } else { "wrong-value-other-key" },
                                format!("op #{} {}: returned {} but the model says {:?}", i, short_op(op), trunc(&got), fm.model.get(k).map(|v| v.len())),
                            ),
                            fired_op,
                        );
                    }
                }
                (Op::Merge, OpRes::Ok) | (Op::Reopen, OpRes::Ok) => {}
                (_, other) => {
                    return (sym("wrong-result", format!("op #{} {}: unexpected result {}", i, short_op(op), trunc(other))), fired_op);
                }
            }
        }
        // all keys after every op
        if ap.kv.is_some() {
            for k in keys {
                match ap.get(k) {
                    OpRes::Got(v) => {
                        if !fm.read_ok(k, &v) {
                            let same = matches!(&fm.alt, Some((ak, _)) if ak == k);
                            return (
                                sym(
                                    if same { "wrong-value-same-key" } else { "wrong-value-other-key" },
                                    format!(
                                        "after op #{} {}: key {:?} reads {:?} (len) but the model says {:?} (len)",
                                        i,
                                        short_op(op),
                                        bytes::Bytes::copy_from_slice(&k[..k.len().min(12)]),
                                        v.as_ref().map(|v| v.len()),
                                        fm.model.get(k).map(|v| v.len())
                                    ),
                                ),
                                fired_op,
                            );
                        }
                    }
                    OpRes::Panic(p) => {
                        return (sym(&format!("panic({})", panic_site(&p)), format!("after op #{}: get panicked: {}", i, p)), fired_op)
                    }
                    other => return (sym("get-error", format!("after op #{} {}: get failed: {}", i, short_op(op), trunc(&other))), fired_op),
                }
            }
        }
    }
    // restart (never under an armed fault: a site index beyond what this run reached is simply
    // not judged)
    if !shim::inject_fired() {
        return (None, None);
    }
    ap.close();
    match ap.open() {
        Err(e) => {
            let name = if e.contains("panicked") { "reopen-panic" } else { "reopen-fails" };
            return (sym(name, format!("after the workload the directory cannot be opened: {}", e)), fired_op);
        }
        Ok(()) => {}
    }
    for k in keys {
        match ap.get(k) {
            OpRes::Got(v) => {
                if !fm.read_ok(k, &v) {
                    let same = matches!(&fm.alt, Some((ak, _)) if ak == k);
                    return (
                        sym(
                            if same { "reopen-wrong-value-same-key" } else { "reopen-wrong-value-other-key" },
                            format!(
                                "after restart key {:?} reads {:?} (len) but the model says {:?} (len)",
                                bytes::Bytes::copy_from_slice(&k[..k.len().min(12)]),
                                v.as_ref().map(|v| v.len()),
                                fm.model.get(k).map(|v| v.len())
                            ),
                        ),
                        fired_op,
                    );
                }
            }
            OpRes::Panic(p) => return (sym("reopen-panic", format!("after restart get panicked: {}", p)), fired_op),
            other => return (sym("reopen-get-error", format!("after restart get failed: {}", trunc(&other))), fired_op),
        }
    }
    (None, fired_op)
}

fn exec(c: &FaultCase, env: &Env) -> Outcome {
    let mut out = Outcome::pass();
    if c.hist.keys.is_empty() {
        return out;
    }
    let hist = &c.hist;
    let interval = hist.cfg.sync_interval_ms > 0 && !hist.cfg.sync_always;
    // fault-free run enumerates the sites (with the sync timer off: its fsync calls come at
    // arbitrary moments; in interval mode the injector neither counts nor fails fsync calls)
    let mut rec_hist = hist.clone();
    rec_hist.cfg.sync_interval_ms = 0;
    let run = run_recorded(&rec_hist, &env.scratch, "store", true);
    if let Some(f) = run.failure.clone() {
        out.fail = Some(f);
        return out;
    }
    let mut sites: Vec<Site> = Vec::new();
    let mut cur: Option<usize> = None;
    let mut writes_in_op: std::collections::BTreeMap<Option<usize>, u32> = Default::default();
    for r in &run.log {
        match &r.kind {
            Kind::Marker(op, end) => {
                cur = if *end { None } else { Some(*op) };
                continue;
            }
            _ => {}
        }
        if !r.rel.starts_with("store/") {
            continue;
        }
        let call = match &r.kind {
            Kind::Create => "create",
            Kind::Write => "write",
            Kind::Fsync => "fsync",
            Kind::Unlink => "unlink",
            _ => continue,
        };
        if call == "write" && r.file.ends_with(".data") {
            *writes_in_op.entry(cur).or_default() += 1;
        }
        sites.push(Site {
            call,
            file_kind: if r.file.ends_with(".hint") { "hint" } else { "data" },
            op_class: op_class(hist, cur),
            is_write: call == "write",
            multi: false,
        });
        let _ = cur;
    }
    // mark sites inside rollover / merge / multi-call appends
    {
        let mut cur: Option<usize> = None;
        let mut idx = 0;
        for r in &run.log {
            if let Kind::Marker(op, end) = &r.kind {
                cur = if *end { None } else { Some(*op) };
                continue;
            }
            if !r.rel.starts_with("store/") || !matches!(r.kind, Kind::Create | Kind::Write | Kind::Fsync | Kind::Unlink) {
                continue;
            }
            let s = &mut sites[idx];
            idx += 1;
            s.multi = s.op_class == "merge"
                || (s.call == "create" && (s.op_class.starts_with("set") || s.op_class == "del"))
                || (s.call == "write" && writes_in_op.get(&cur).copied().unwrap_or(0) >= 2);
        }
    }

    let keys = run.keys.clone();
    let dir = env.scratch.join("store");
    let mut evals = 0u64;
    let mut not_fired = 0u64;
    let mut resp_timeouts = 0u64;
    let mut non_fsync_seen = 0usize;
    'sites: for (n, site) in sites.iter().enumerate() {
        // index of this site for the injector
        let arm_at = if interval {
            if site.call == "fsync" {
                continue;
            }
            non_fsync_seen += 1;
            non_fsync_seen - 1
        } else {
            n
        };
        let mut kinds: Vec<(i32, bool, &str)> = vec![(libc::ENOSPC, false, "ENOSPC"), (libc::EIO, false, "EIO")];
        if site.is_write {
            kinds.push((libc::EIO, true, "short-write-then-EIO"));
        }
        for (errno, short, ename) in kinds {
            let _ = std::fs::remove_dir_all(&dir);
            std::fs::create_dir_all(&dir).unwrap();
            shim::register(&env.scratch);
            let dbg = env.replay && std::env::var("VH_DEBUG").is_ok();
            if dbg {
                shim::record_start();
            }
            if interval {
                shim::inject_arm_no_fsync(arm_at as i64, errno, short);
            } else {
                shim::inject_arm(arm_at as i64, errno, short);
            }
            let (mut sym, mut fired_op) = faulted_run(hist, &dir, &keys, c.via_resp);
            let mut fired = shim::inject_disarm();
            if c.via_resp && matches!(&sym, Some(s) if s.msg.contains("no reply within 10 s") || s.msg.contains("harness: ")) {
                // a missed time bound on the wire (or a server / connection the harness could not set
                // up) is not a verdict (one such case in 3.6 million
                // runs of a thorough campaign on a loaded machine, never reproduced): the same
                // faulted run is repeated with direct calls, where an operation that does not
                // return is caught by the stall watchdog and everything else by the oracle
                resp_timeouts += 1;
                let _ = std::fs::remove_dir_all(&dir);
                std::fs::create_dir_all(&dir).unwrap();
                if interval {
                    shim::inject_arm_no_fsync(arm_at as i64, errno, short);
                } else {
                    shim::inject_arm(arm_at as i64, errno, short);
                }
                let again = faulted_run(hist, &dir, &keys, false);
                sym = again.0;
                fired_op = again.1;
                fired = shim::inject_disarm();
            }
            if dbg {
                eprintln!("--- site {} {}", n, ename);
                for r in shim::record_stop() {
                    eprintln!("  {:?} {} res={} err={}", r.kind, r.rel, r.result, r.err);
                }
            }
            evals += 1;
            let fired = match fired {
                None => {
                    not_fired += 1;
                    continue;
                }
                Some(f) => f,
            };
            // the call actually hit (merges iterate a randomly seeded hash map, so the n-th call
            // of this run need not be the n-th call of the fault-free run)
            let f_opclass = if fired.op >= 0 && (fired.op as usize) < hist.ops.len() {
                op_class(hist, Some(fired.op as usize))
            } else {
                "open".to_string()
            };
            let f_kind = if fired.hint_file { "hint" } else { "data" };
            if site.multi || f_opclass == "merge" {
                out.nt_hashes.push(hash64(&(n, ename)));
            }
            let _ = fired_op;
            if let Some(s) = sym {
                let sig = format!("{}:{}@{}->{}", fired.call, f_kind, f_opclass, s.name);
                out.fail = Some(Failure {
                    sig,
                    msg: format!(
                        "{} injected at fault site #{} ({} of a {} file during {}, op #{}): {}",
                        ename, n, fired.call, f_kind, f_opclass, fired.op, s.msg
                    ),
                });
                break 'sites;
            }
        }
    }

    let _ = std::fs::remove_dir_all(&dir);
    out.evals = evals.max(1);
    out.count("fault-runs", evals);
    out.count("fault-sites", sites.len() as u64);
    out.count("fault-did-not-fire", not_fired);
    if resp_timeouts > 0 {
        out.count("resp-reply-bound-missed-run-repeated-with-direct-calls", resp_timeouts);
    }
    out.count("workloads", 1);
    if hist.cfg.small_file != u64::MAX {
        out.labels.push("workload-with-arbitrary-merge-thresholds".into());
    }
    if c.via_resp {
        out.labels.push("workload-through-the-resp-server".into());
    }
    if interval {
        out.labels.push("workload-with-interval-sync".into());
    }
    for s in &sites {
        out.labels.push(format!("site:{}:{}@{}", s.call, s.file_kind, s.op_class));
    }
    out.labels.sort();
    out.labels.dedup();
    out
}

pub fn prop() -> Prop<FaultCase> {
    Prop {
        id: "C20",
        level: "fault_enumeration",
        rule: "Workloads (3-12 ops quick / up to 30 thorough over set/get/del/merge/reopen, entries below and above the 8 KiB write buffer, rollovers, all-eligible merges, sync none or always, one workload in twelve with interval sync) are generated by proptest. A fault-free recorded run enumerates EVERY fault site (each create, write, fsync, unlink call on a store file, the initial open included); the workload is then re-run from scratch once per site and fault kind (ENOSPC, EIO, and for writes additionally a short write followed by EIO), the single transient fault injected by the LD_PRELOAD shim. A quarter of the workloads issue their set/get/del in the faulted runs as RESP commands over one connection to an in-process server on the store's handle (an error reply, or the connection ended without a reply, is the operation's error; the harness reconnects). Workloads with interval sync (1 ms) run the enumeration with the timer off, inject only at create/write/unlink calls (the timer's fsync calls come at arbitrary moments and are neither counted nor failed) and wait six milliseconds after the operation that met the fault, so that the timer syncs the file the failed append left behind. Oracle per run: the op during which the fault fired returns Err; every other op returns Ok and matches the model, where the failed op's own key may read as its old or its new value until the next acknowledged op on it; all keys are re-read after every op; after the workload the directory opens and reads the same way. evaluations = faulted runs. Non-trivial: a fault that fired inside a merge, a rollover or a multi-call append; distinct = (workload hash, site, fault kind).",
        assumptions: &[
            "one transient fault per run; the same call succeeds when retried",
            "in the runs through the RESP server a reply that does not arrive within 10 s is not a verdict: that faulted run is repeated with direct calls (counted in the evidence), where a call that does not return is caught by the per-case stall watchdog",
            "the single threaded workload with merge policy never issues the same call sequence in every run (runs where the armed site was not reached are counted as fault-did-not-fire and not judged)",
            "three quarters of the workloads use thresholds that make every non-empty file eligible, the rest arbitrary thresholds",
        ],
        needs_shim: true,
        budget: |t| t.pick(3200, 24000),
        shards: |_| 16,
        strategy,
        exec,
        max_shrink_iters: 1500,
        replay_repeats: 1,
        watchdog_s: |t| t.pick(900, 7200),
    }
}
