//! C09 — with sync=always an acknowledged write survives power loss, merges included.

use proptest::prelude::*;
use serde::{Deserialize, Serialize};

use crate::{
    engine::{hash64, Env, Outcome, Prop, Tier},
    gen::{op_strategy, Hist, Op, OpWeights, ValSizes},
    props::c03::{acked_at, check_crash_dir, short_op, workload},
    rec::{run_recorded, MCall, MemDir},
};

#[derive(Clone, Debug, Serialize, Deserialize)]
pub struct PowerCase {
    pub hist: Hist,
    pub post: Vec<Op>,
    /// seed of the per-file random cut lengths
    pub cut_seed: u64,
}

fn strategy(tier: Tier) -> BoxedStrategy<PowerCase> {
    let with_merges = workload(
        tier,
        true,
        OpWeights {
            set: 10,
            get: 0,
            del: 4,
            merge: 4,
            reopen: 2,
        },
        3,
        14,
        40,
    );
    let without = workload(
        tier,
        true,
        OpWeights {
            set: 10,
            get: 0,
            del: 4,
            merge: 0,
            reopen: 2,
        },
        3,
        14,
        40,
    );
    let partial = crate::props::c03::workload_partial(
        tier,
        true,
        OpWeights {
            set: 10,
            get: 0,
            del: 4,
            merge: 4,
            reopen: 2,
        },
        3,
        14,
        40,
    );
    (
        prop_oneof![3 => with_merges, 2 => without, 2 => partial],
        proptest::collection::vec(
            op_strategy(
                OpWeights {
                    set: 4,
                    get: 1,
                    del: 2,
                    merge: 1,
                    reopen: 0,
                },
                ValSizes::Small,
            ),
            0..=3,
        ),
        any::<u64>(),
    )
        .prop_map(|(hist, post, cut_seed)| PowerCase { hist, post, cut_seed })
        .boxed()
}

fn mix(mut x: u64) -> u64 {
    x ^= x >> 33;
    x = x.wrapping_mul(0xff51afd7ed558ccd);
    x ^= x >> 33;
    x = x.wrapping_mul(0xc4ceb9fe1a85ec53);
    x ^= x >> 33;
    x
}

fn exec(c: &PowerCase, env: &Env) -> Outcome {
    let mut out = Outcome::pass();
    if c.hist.keys.is_empty() {
        return out;
    }
    let run = run_recorded(&c.hist, &env.scratch, "store", true);
    if let Some(f) = run.failure.clone() {
        out.fail = Some(f);
        return out;
    }
    let nops = run.results.len();
    let crash_dir = env.scratch.join("crash");
    let mut md = MemDir::default();
    let mut evals = 0u64;
    let has_merge = c.hist.ops.iter().any(|o| matches!(o, Op::Merge));
    out.label(if has_merge { "workload-with-merge" } else { "workload-without-merge" });
    'outer: for k in 0..=run.calls.len() {
        if k > 0 {
            md.apply(&run.calls[k - 1].call);
        }
        let (acked, inflight) = acked_at(&run, k, nops);
        let unsynced: u64 = md
            .files
            .iter()
            .map(|(f, d)| (d.len() - md.synced.get(f).copied().unwrap_or(0).min(d.len())) as u64)
            .sum();
        // was there a merge or a rollover in the prefix?
        let structural = run.calls[..k]
            .iter()
            .any(|e| matches!(&e.call, MCall::Create(_)) && e.op.map_or(false, |o| !matches!(c.hist.ops[o], Op::Reopen)));
        let variants: u64 = if unsynced == 0 { 1 } else { 3 };
        for v in 0..variants {
            let mut files = std::collections::BTreeMap::new();
            let mut lost = 0u64;
            for (f, d) in &md.files {
                let s = md.synced.get(f).copied().unwrap_or(0).min(d.len());
                let n = if v == 0 || d.len() == s {
                    s
                } else {
                    let r = mix(c.cut_seed ^ mix(k as u64 * 31 + v) ^ hash64(f));
                    // bias toward the ends: synced length, full length, or anywhere in between
                    match r % 4 {
                        0 => s,
                        1 => d.len(),
                        _ => s + ((r >> 8) as usize % (d.len() - s + 1)),
                    }
                };
                lost += (d.len() - n) as u64;
                files.insert(f.clone(), d[..n].to_vec());
            }
            let what = format!(
                "power loss before call #{} of {} ({}; variant {}: {} unsynced byte(s) lost; {} op(s) acknowledged{})",
                k,
                run.calls.len(),
                run.calls.get(k).map(|e| e.call.describe()).unwrap_or_else(|| "end of workload".into()),
                if v == 0 { "every file cut to its last fsync".to_string() } else { format!("random cuts #{}", v) },
                lost,
                acked,
                inflight.map(|i| format!(", op #{} {} in flight", i, short_op(&c.hist.ops[i]))).unwrap_or_default()
            );
            evals += 1;
            if lost > 0 && structural {
                out.nt_hashes.push(hash64(&(k, v)));
            }
            if let Err(mut f) = check_crash_dir(&c.hist, &c.post, &run.keys, &run.models, acked, inflight, &files, &crash_dir, &env.scratch, &what) {
                // structural signature for the merge-durability defect
                let in_or_after_merge = run.calls[..k].iter().any(|e| e.op.map_or(false, |o| matches!(c.hist.ops[o], Op::Merge)));
                if in_or_after_merge {
                    f.sig = format!("{}:after-merge-started", f.sig);
                }
                out.fail = Some(f);
                break 'outer;
            }
        }
    }
    let _ = std::fs::remove_dir_all(&crash_dir);
    let _ = std::fs::remove_dir_all(env.scratch.join("store"));
    out.evals = evals;
    out.count("failure-states", evals);
    out.count("workloads", 1);
    out
}

pub fn prop() -> Prop<PowerCase> {
    Prop {
        id: "C09",
        level: "fault_enumeration",
        rule: "Workloads as in C03 but under sync=always (two generator variants: with and without merges) run once under the LD_PRELOAD recorder, which also tracks fsync per file. For EVERY boundary k between two recorded calls the power-loss states are materialised: (i) every file cut back to its length at its last completed fsync (the worst case of the property's model), and (ii) two states in which each file independently keeps a generated length between its synced and its current length; creations and unlinks issued before k are kept. Each state is recovered; reads must equal the model after the ops that had returned (their fsync included), optionally plus the op in flight; recovery is repeated and generated post ops must still agree. evaluations = failure states recovered. Non-trivial: a state in which at least one file loses bytes and the prefix contains a rollover or a merge; distinct = (workload hash, k, variant).",
        assumptions: &[
            "failure model exactly as the property states it: per file independently any suffix written after that file's last completed fsync may be missing; file creations and removals already issued are persistent",
            "most merges use thresholds that make every non-empty file eligible; two workloads in seven use arbitrary thresholds (merges of arbitrary subsets of files)",
        ],
        needs_shim: true,
        budget: |t| t.pick(3200, 40000),
        shards: |_| 16,
        strategy,
        exec,
        max_shrink_iters: 3000,
        replay_repeats: 1,
        watchdog_s: |t| t.pick(900, 7200),
    }
}
