//! C18 — background merge and sync follow the configured policy.

use std::{
    collections::BTreeMap,
    time::{Duration, Instant},
};

use bitcask::storage::KeyValueStorage;
use bytes::Bytes;
use proptest::prelude::*;
use serde::{Deserialize, Serialize};

use crate::{
    diskfmt,
    engine::{catch, Env, Outcome, Prop, Tier},
    gen::StoreCfg,
    shim::{self, Kind},
    store::{config_json, thread_count, wait_bg_exit},
};

#[derive(Clone, Debug, Serialize, Deserialize)]
pub struct PolicyCase {
    /// 0 policy never, 1 policy always (merge trigger cases), 2 interval sync, 3 policy always with
    /// one transient fault in the first background merge pass (the next check must merge),
    /// 4 policy always with a long check interval: the trigger is crossed by live writes while the
    /// task sleeps, the merge must come with the FIRST tick after the crossing
    pub mode: u8,
    pub interval_ms: u16,
    pub jitter_pct: u8,
    pub max_file_size: u64,
    /// write pattern: n distinct keys set, then `overwrites` of them overwritten, `deletes` deleted
    pub nkeys: u8,
    pub overwrites: u8,
    pub deletes: u8,
    pub val_len: u16,
    /// trigger placement relative to the measured worst file: 0 far below (exceeded), 1 exactly
    /// at the measured value (NOT exceeded: the rule is strict), 2 just below (exceeded), 3 far
    /// above (not exceeded)
    pub frag_mode: u8,
    pub dead_mode: u8,
    /// every configuration of this case is built with `Config::default()` and the public setters
    /// instead of being deserialized (the merge policy alone always comes through serde: its type
    /// is not exported)
    #[serde(default)]
    pub via_setters: bool,
}

fn strategy(_tier: Tier) -> BoxedStrategy<PolicyCase> {
    (
        prop_oneof![4 => Just(0u8), 10 => Just(1u8), 4 => Just(2u8), 4 => Just(3u8), 2 => Just(4u8)],
        20u16..200,
        prop_oneof![Just(0u8), 1u8..100, Just(100u8)],
        prop_oneof![Just(2u64 << 30), 200u64..2000],
        2u8..24,
        0u8..24,
        0u8..8,
        1u16..200,
        0u8..4,
        (0u8..4, any::<bool>()),
    )
        .prop_map(|(mode, interval_ms, jitter_pct, max_file_size, nkeys, overwrites, deletes, val_len, frag_mode, (dead_mode, via_setters))| PolicyCase {
            mode,
            interval_ms,
            jitter_pct,
            max_file_size,
            nkeys,
            overwrites,
            deletes,
            val_len,
            frag_mode,
            dead_mode,
            via_setters,
        })
        .boxed()
}

/// Per-file ground truth from an independent scan: (live, dead, dead_bytes).
fn truth(dir: &std::path::Path) -> BTreeMap<u64, (u64, u64, u64)> {
    let scan = diskfmt::scan_dir(dir);
    // latest entry per key
    let mut latest: BTreeMap<Vec<u8>, (u64, u64, bool)> = BTreeMap::new();
    for (id, (ents, _, _)) in &scan.data {
        for e in ents {
            latest.insert(e.key.clone(), (*id, e.pos, e.value.is_some()));
        }
    }
    let mut m = BTreeMap::new();
    for (id, (ents, _, _)) in &scan.data {
        let mut t = (0u64, 0u64, 0u64);
        for e in ents {
            let live = latest.get(&e.key) == Some(&(*id, e.pos, true));
            if live {
                t.0 += 1;
            } else {
                t.1 += 1;
                t.2 += e.len;
            }
        }
        if !ents.is_empty() {
            m.insert(*id, t);
        }
    }
    m
}

fn hint_files(dir: &std::path::Path) -> usize {
    std::fs::read_dir(dir)
        .map(|rd| rd.filter_map(|e| e.ok()).filter(|e| e.file_name().to_string_lossy().ends_with(".hint")).count())
        .unwrap_or(0)
}

fn data_file_names(dir: &std::path::Path) -> Vec<String> {
    let mut v: Vec<String> = std::fs::read_dir(dir)
        .map(|rd| rd.filter_map(|e| e.ok()).map(|e| e.file_name().to_string_lossy().to_string()).filter(|n| n.ends_with(".data")).collect())
        .unwrap_or_default();
    v.sort();
    v
}

struct Run {
    fail: Option<(String, String, bool)>, // (sig, msg, positive-deadline)
    labels: Vec<String>,
    nontrivial: bool,
}

/// Policy always with a check interval of 1.5-2.5 s and little jitter; the store is opened EMPTY, and
/// right after the open live writes push a file over the dead-bytes trigger while the task sleeps.
/// The merge must come with the first tick after the crossing: within interval*(1+jitter) + 0.8 s of
/// the open (a decision that is one tick old would take two intervals).
fn live_crossing_case(c: &PolicyCase, env: &Env, dir: &std::path::Path, base_cfg: &StoreCfg, base_threads: usize, run: &mut Run) {
    run.labels.push("policy-always-trigger-crossed-by-live-writes".into());
    let _ = env;
    // phase 1 wrote a pattern into `dir`; this mode wants an empty store
    let _ = std::fs::remove_dir_all(dir);
    std::fs::create_dir_all(dir).unwrap();
    let interval_ms = 1500 + (c.interval_ms as u64 % 180) * 5; // 1.5 .. 2.4 s
    let jitter = (c.jitter_pct % 20) as f64 / 100.0;
    // the dead bytes come from overwrites, or from deletes of keys with larger values
    let by_deletes = c.deletes % 2 == 1;
    run.labels.push(if by_deletes { "live-crossing-by-deletes".into() } else { "live-crossing-by-overwrites".into() });
    let merge = serde_json::json!({
        "policy": "always",
        "check_interval_ms": interval_ms,
        "check_jitter": jitter,
        "triggers": { "fragmentation": 1.0, "dead_bytes": if by_deletes { 150 } else { 40 } },
    });
    let t0 = Instant::now();
    let kv = match catch(|| config_json(base_cfg, dir, Some(merge), None).open()) {
        Ok(Ok(kv)) => kv,
        _ => {
            run.fail = Some(("open-failed".into(), "open with the policy failed".into(), false));
            return;
        }
    };
    let h = kv.get_handle();
    // cross the trigger well inside the first sleep
    std::thread::sleep(Duration::from_millis(100));
    if by_deletes {
        // five values of 200 bytes, four of them deleted.  The trigger is per file and the case's
        // max_file_size may put every value into a file of its own, so the trigger (150) is below
        // the size of ONE deleted entry (227 bytes) and above everything four tombstones (19 bytes
        // each) can add up to
        for i in 0..5u8 {
            let _ = h.set(Bytes::from(vec![b'k', i]), Bytes::from(vec![b'v'; 200]));
        }
        for i in 0..4u8 {
            let _ = h.del(Bytes::from(vec![b'k', i]));
        }
    } else {
        // overwrite one key a few times
        for i in 0..6 {
            let _ = h.set(Bytes::from_static(b"hot"), Bytes::from(vec![b'x'; 40 + i]));
        }
    }
    let crossed_at = t0.elapsed();
    let interval = Duration::from_millis(interval_ms);
    let deadline = interval.mul_f64(1.0 + jitter) + Duration::from_millis(800);
    let mut seen = None;
    while t0.elapsed() < deadline {
        if hint_files(dir) > 0 {
            seen = Some(t0.elapsed());
            break;
        }
        std::thread::sleep(Duration::from_millis(2));
    }
    run.nontrivial = true;
    if seen.is_none() {
        run.fail = Some((
            "merge-came-later-than-the-first-tick-after-the-trigger-was-crossed".into(),
            format!(
                "policy always, check interval {} ms, jitter {:.2}: live writes pushed the dead bytes over the trigger {:?} after the open (during the first sleep); no merge within {:?} of the open, i.e. not with the first tick after the crossing",
                interval_ms, jitter, crossed_at, deadline
            ),
            true,
        ));
    }
    drop(h);
    drop(kv);
    wait_bg_exit(base_threads);
}

/// Policy always, triggers exceeded, and the first background merge pass fails once (transient
/// ENOSPC when it creates its hint file): the triggers stay exceeded, so a later check must merge.
#[allow(clippy::too_many_arguments)]
fn failed_pass_case(c: &PolicyCase, env: &Env, dir: &std::path::Path, base_cfg: &StoreCfg, base_threads: usize, worst_dead: u64, worst_frag: f64, run: &mut Run) {
    run.labels.push("policy-always-first-pass-fails".into());
    if worst_dead == 0 {
        // nothing dead: no trigger can be exceeded with this pattern
        return;
    }
    let interval = Duration::from_millis(c.interval_ms as u64);
    let jitter = c.jitter_pct as f64 / 100.0;
    let merge = serde_json::json!({
        "policy": "always",
        "check_interval_ms": c.interval_ms,
        "check_jitter": jitter,
        "triggers": { "fragmentation": 1.0, "dead_bytes": 0 },
    });
    let files_before = data_file_names(dir);
    shim::register(&env.scratch);
    shim::inject_arm_hint_create(0, libc::ENOSPC);
    let t0 = Instant::now();
    let kv = match catch(|| config_json(base_cfg, dir, Some(merge), None).open()) {
        Ok(Ok(kv)) => kv,
        _ => {
            shim::inject_disarm();
            run.fail = Some(("open-failed".into(), "reopen with the policy failed".into(), false));
            return;
        }
    };
    // a completed merge removes the files it merged
    let deadline = interval.mul_f64(1.0 + jitter) * 3 + Duration::from_secs(2);
    let mut merged = None;
    while t0.elapsed() < deadline {
        if files_before.iter().any(|f| !dir.join(f).exists()) {
            merged = Some(t0.elapsed());
            break;
        }
        std::thread::sleep(Duration::from_millis(1));
    }
    let fired = shim::inject_disarm();
    if fired.is_some() {
        run.labels.push("first-merge-pass-failed-as-planned".into());
        run.nontrivial = true;
    }
    if merged.is_none() {
        run.fail = Some((
            "merge-did-not-run-after-failed-pass".into(),
            format!(
                "policy always, dead bytes {} and fragmentation {:.3} exceed the triggers; the first background merge pass {}; no merge completed within {:?} (3 check intervals of {} ms with jitter {:.2}, plus 2 s)",
                worst_dead,
                worst_frag,
                if fired.is_some() { "failed once (transient ENOSPC creating its hint file)" } else { "was not disturbed" },
                deadline,
                c.interval_ms,
                jitter
            ),
            true,
        ));
    }
    drop(kv);
    wait_bg_exit(base_threads);
}

fn run_once(c: &PolicyCase, env: &Env) -> Run {
    let mut run = Run {
        fail: None,
        labels: Vec::new(),
        nontrivial: false,
    };
    let dir = env.fresh_dir("store");
    let base_threads = thread_count();
    let base_cfg = StoreCfg {
        max_file_size: c.max_file_size,
        readers_cache: 4,
        concurrency: 1,
        frag: 0.0,
        dead_bytes: 0,
        small_file: u64::MAX,
        sync_always: false,
        sync_interval_ms: 0,
    };
    // phase 1: write the pattern with every background activity off
    {
        let kv = match catch(|| config_json(&base_cfg, &dir, None, None).open()) {
            Ok(Ok(kv)) => kv,
            other => {
                run.fail = Some(("open-failed".into(), format!("{:?}", other.map(|r| r.map(|_| ()).map_err(|e| e.to_string()))), false));
                return run;
            }
        };
        let h = kv.get_handle();
        let key = |i: u8| Bytes::from(format!("key-{:03}", i).into_bytes());
        for i in 0..c.nkeys {
            let _ = h.set(key(i), Bytes::from(vec![b'a'; c.val_len as usize]));
        }
        for i in 0..c.overwrites {
            let _ = h.set(key(i % c.nkeys), Bytes::from(vec![b'b'; c.val_len as usize + (i as usize % 5)]));
        }
        for i in 0..c.deletes {
            let _ = h.del(key((c.nkeys - 1).saturating_sub(i % c.nkeys)));
        }
        drop(h);
        drop(kv);
        wait_bg_exit(base_threads);
    }
    let t = truth(&dir);
    let worst_dead = t.values().map(|x| x.2).max().unwrap_or(0);
    let worst_frag = t
        .values()
        .map(|x| if x.1 == 0 { 0.0 } else { x.1 as f64 / (x.0 + x.1) as f64 })
        .fold(0.0f64, f64::max);
    // place the triggers
    let (trig_dead, dead_exceeded) = match c.dead_mode % 4 {
        0 => (0u64, worst_dead > 0),
        1 => (worst_dead, false),
        2 => (worst_dead.saturating_sub(1), worst_dead > 0),
        _ => (u64::MAX, false),
    };
    let (trig_frag, frag_exceeded) = match c.frag_mode % 4 {
        0 => (0.0f64, worst_frag > 0.0),
        1 => (worst_frag, false),
        2 => {
            // just below the measured value
            let f = (worst_frag - 1e-9).max(0.0);
            (f, worst_frag > f)
        }
        _ => (1.0f64, false),
    };
    let exceeded = dead_exceeded || frag_exceeded;
    let near_boundary = matches!(c.dead_mode % 4, 1 | 2) || matches!(c.frag_mode % 4, 1 | 2);
    let interval = Duration::from_millis(c.interval_ms as u64);
    let jitter = c.jitter_pct as f64 / 100.0;

    match c.mode % 5 {
        4 => {
            live_crossing_case(c, env, &dir, &base_cfg, base_threads, &mut run);
        }
        3 => {
            failed_pass_case(c, env, &dir, &base_cfg, base_threads, worst_dead, worst_frag, &mut run);
        }
        0 | 1 => {
            let always = c.mode % 5 == 1;
            run.labels.push(if always { "policy-always".into() } else { "policy-never".into() });
            run.labels.push(if exceeded { "trigger-exceeded".into() } else { "trigger-not-exceeded".into() });
            if near_boundary {
                run.labels.push("trigger-within-one-unit-of-the-measured-value".into());
            }
            let merge = serde_json::json!({
                "policy": if always { "always" } else { "never" },
                "check_interval_ms": c.interval_ms,
                "check_jitter": jitter,
                "triggers": { "fragmentation": trig_frag, "dead_bytes": trig_dead },
            });
            let hints_before = hint_files(&dir);
            let files_before = data_file_names(&dir);
            let t0 = Instant::now();
            let kv = match catch(|| config_json(&base_cfg, &dir, Some(merge), None).open()) {
                Ok(Ok(kv)) => kv,
                _ => {
                    run.fail = Some(("open-failed".into(), "reopen with the policy failed".into(), false));
                    return run;
                }
            };
            let expect_merge = always && exceeded;
            // the new active file created by open is not merge evidence
            let files_after_open = data_file_names(&dir);
            let evidence = |dir: &std::path::Path| -> bool {
                hint_files(dir) > hints_before || files_before.iter().any(|f| !dir.join(f).exists())
            };
            if expect_merge {
                let deadline = interval.mul_f64(1.0 + jitter) + Duration::from_secs(2);
                let mut seen = None;
                while t0.elapsed() < deadline {
                    if evidence(&dir) {
                        seen = Some(t0.elapsed());
                        break;
                    }
                    std::thread::sleep(Duration::from_millis(1));
                }
                match seen {
                    None => {
                        run.fail = Some((
                            "merge-did-not-run".into(),
                            format!(
                                "policy always, worst file: dead_bytes {} (trigger {}), fragmentation {:.4} (trigger {:.4}): no merge within {:?} (check interval {} ms, jitter {:.2})",
                                worst_dead, trig_dead, worst_frag, trig_frag, deadline, c.interval_ms, jitter
                            ),
                            true,
                        ))
                    }
                    Some(_) => {
                        // after the merge the triggers are no longer exceeded: a quiet period follows
                        std::thread::sleep(interval.mul_f64(2.5));
                        run.nontrivial = true;
                        run.labels.push("merge-observed-then-quiet-period".into());
                    }
                }
            } else {
                // no merge may run during 6 check intervals
                let window = interval * 6;
                while t0.elapsed() < window {
                    if evidence(&dir) {
                        run.fail = Some((
                            if always { "merge-ran-without-trigger".to_string() } else { "merge-ran-under-policy-never".to_string() },
                            format!(
                                "policy {}, worst file: dead_bytes {} (trigger {}), fragmentation {:.6} (trigger {:.6}; a trigger fires only when EXCEEDED): a merge ran after {:?}",
                                if always { "always" } else { "never" },
                                worst_dead,
                                trig_dead,
                                worst_frag,
                                trig_frag,
                                t0.elapsed()
                            ),
                            false,
                        ));
                        break;
                    }
                    std::thread::sleep(Duration::from_millis(2));
                }
                run.nontrivial = near_boundary || !always;
            }
            let _ = files_after_open;
            drop(kv);
            wait_bg_exit(base_threads);
        }
        _ => {
            run.labels.push("interval-sync".into());
            let sync_ms = c.interval_ms.clamp(10, 100) as u64;
            shim::register(&env.scratch);
            shim::record_start_fsync_only();
            let kv = match catch(|| config_json(&base_cfg, &dir, None, Some(serde_json::json!({ "interval_ms": sync_ms }))).open()) {
                Ok(Ok(kv)) => kv,
                _ => {
                    shim::record_stop();
                    run.fail = Some(("open-failed".into(), "open with interval sync failed".into(), false));
                    return run;
                }
            };
            let h = kv.get_handle();
            let active = format!("{}.bitcask.data", h.verif_dump().active_fileid);
            // writer threads that keep the writer mutex busy for the whole window (0-3 of them,
            // from the case): a tick must wait for the mutex, not be dropped
            let hammer_stop = std::sync::Arc::new(std::sync::atomic::AtomicBool::new(false));
            let mut hammers = Vec::new();
            if c.max_file_size >= (2 << 30) {
                for t in 0..(c.deletes % 4) {
                    let (hh, stop) = (h.clone(), hammer_stop.clone());
                    hammers.push(std::thread::spawn(move || {
                        let mut i = 0u64;
                        while !stop.load(std::sync::atomic::Ordering::SeqCst) {
                            let _ = hh.set(Bytes::from(format!("hammer-{}-{}", t, i % 8).into_bytes()), Bytes::from(vec![b'h'; 64]));
                            i += 1;
                        }
                    }));
                }
            }
            if !hammers.is_empty() {
                run.labels.push("interval-sync-with-busy-writers".into());
            }
            // keep writing a little so that there is something to sync
            let t0 = Instant::now();
            // 10 intervals, but at least half a second: under load the worker's ticks slip
            let window = Duration::from_millis((sync_ms * 10).max(500));
            let mut i = 0u32;
            while t0.elapsed() < window {
                if c.max_file_size >= (2 << 30) || i == 0 {
                    // (with a small max_file_size the active file would roll over; write once)
                    let _ = h.set(Bytes::from(format!("s{}", i % 4).into_bytes()), Bytes::from_static(b"v"));
                }
                i += 1;
                std::thread::sleep(Duration::from_millis(sync_ms / 2 + 1));
            }
            hammer_stop.store(true, std::sync::atomic::Ordering::SeqCst);
            for j in hammers {
                let _ = j.join();
            }
            let log = shim::record_stop();
            let active_now = format!("{}.bitcask.data", h.verif_dump().active_fileid);
            let fsyncs = log.iter().filter(|r| r.kind == Kind::Fsync && r.result == 0 && (r.file == active || r.file == active_now)).count();
            let other_fsyncs = log.iter().filter(|r| r.kind == Kind::Fsync && r.result == 0).count() - fsyncs;
            run.labels.push(format!("fsyncs-per-10-intervals:{}", fsyncs.min(12)));
            run.nontrivial = true;
            if fsyncs < 3 {
                run.fail = Some((
                    "interval-sync-missing".into(),
                    format!(
                        "sync interval {} ms: during a window of 10 intervals the active file was fsynced {} time(s) ({} fsyncs of other files); at least once per interval is promised, 3 of 10 are required here",
                        sync_ms, fsyncs, other_fsyncs
                    ),
                    true,
                ));
            }
            drop(h);
            drop(kv);
            wait_bg_exit(base_threads);
        }
    }
    let _ = std::fs::remove_dir_all(&dir);
    run
}

fn exec(c: &PolicyCase, env: &Env) -> Outcome {
    let mut out = Outcome::pass();
    if c.nkeys == 0 {
        return out;
    }
    // the two documented ways to build a configuration must describe the same store
    {
        let cfg = StoreCfg {
            max_file_size: c.max_file_size,
            readers_cache: 1 + c.nkeys as usize,
            concurrency: 1 + (c.overwrites % 4) as usize,
            frag: (c.deletes % 11) as f64 / 10.0,
            dead_bytes: c.val_len as u64 * 3,
            small_file: c.val_len as u64 * 7 + 1,
            sync_always: c.frag_mode % 2 == 1,
            sync_interval_ms: 0,
        };
        let merge = serde_json::json!({
            "policy": if c.mode == 0 { "never" } else { "always" },
            "check_interval_ms": c.interval_ms,
            "check_jitter": (c.jitter_pct.min(100)) as f64 / 100.0,
            "triggers": { "fragmentation": (c.overwrites % 11) as f64 / 10.0, "dead_bytes": c.val_len as u64 * 5 + 2 },
        });
        let sync = if c.dead_mode % 2 == 1 { Some(serde_json::json!({ "interval_ms": c.interval_ms as u64 + 9 })) } else { None };
        let (a, b) = crate::store::config_both_debug(&cfg, &env.scratch.join("cfg"), Some(merge), sync);
        if a != b {
            out.set_fail(
                "config-setters-and-serde-disagree".to_string(),
                format!("the same settings give different configurations: deserialized = {} ; built with the setters = {}", a, b),
            );
            return out;
        }
    }
    crate::store::CONFIG_VIA_SETTERS.store(c.via_setters, std::sync::atomic::Ordering::SeqCst);
    if c.via_setters {
        out.label("configured-through-setters");
    }
    let mut run = run_once(c, env);
    if let Some((_, _, true)) = &run.fail {
        // a positive deadline was missed: re-try once before reporting
        let again = run_once(c, env);
        if again.fail.is_none() {
            out.label("positive-deadline-missed-once-then-met");
            run = again;
        } else {
            run = again;
        }
    }
    crate::store::CONFIG_VIA_SETTERS.store(false, std::sync::atomic::Ordering::SeqCst);
    out.labels.extend(run.labels);
    out.nontrivial = run.nontrivial;
    if let Some((sig, msg, _)) = run.fail {
        out.set_fail(sig, msg);
    }
    out
}

pub fn prop() -> Prop<PolicyCase> {
    Prop {
        id: "C18",
        level: "exploration",
        rule: "Cases: a write pattern (2-23 keys set, 0-23 overwritten, 0-7 deleted, small or 2 GiB max_file_size) written with all background activity off; an independent decoder measures the worst per-file dead bytes and fragmentation; the store is then reopened with policy never or always, check interval 20-200 ms, jitter 0-1, and triggers placed relative to the measured values: far below (exceeded), exactly at the measured value (not exceeded - the trigger rule is a strict 'exceeds'), just below (exceeded), far above. Oracles: never -> no merge evidence (no new hint file, no data file removed) during 6 intervals; always + exceeded -> merge evidence within interval*(1+jitter)+2 s with no client action, then a quiet period; always + not exceeded -> none during 6 intervals. A fifth (rare, 2-3 s per case) mode opens an empty store with a check interval of 1.5-2.4 s, crosses the dead-bytes trigger by live writes during the first sleep (overwrites of one key, or deletes of four keys with 200-byte values against a trigger of 150 bytes - less than one deleted entry, more than four tombstones) and requires the merge with the first tick after the crossing (interval*(1+jitter)+0.8 s after the open). A fourth mode fails the first background merge pass once (transient ENOSPC injected by the shim when it creates its hint file) and requires a completed merge within 3 intervals + 2 s, since the triggers stay exceeded. Interval sync (10-100 ms; in most cases with 1-3 threads writing continuously so that the writer mutex is busy when a tick comes): under the LD_PRELOAD recorder the active file must be fsynced at least 3 times in a window of 10 intervals (at least 500 ms). In half of the cases every configuration is built with Config::default() and the public setters instead of being deserialized (only the merge policy, whose type is not exported, always comes through serde), and in every case both builds of one generated settings record must render identically with Debug. Non-trivial: a trigger within one unit of the measured value, a policy-never case, an observed merge followed by a quiet period, or a sync window; distinct = distinct hash of the case.",
        assumptions: &[
            "positive deadlines carry 2 s of slack and are re-tried once before being reported; negative windows are 6 check intervals",
            "the merge window policy is not generated (the property does not mention it)",
            "trigger evaluation after a restart uses the accounting rebuilt from the files, which C19 checks against ground truth",
        ],
        needs_shim: true,
        budget: |t| t.pick(320, 4000),
        shards: |_| 16,
        strategy,
        exec,
        max_shrink_iters: 40,
        replay_repeats: 2,
        watchdog_s: |t| t.pick(900, 7200),
    }
}
