//! C07 — the RESP parser is total: no input panics, aborts or mis-reads a number.

use std::{io::Cursor, process::Command};

use bitcask::net::frame::{Error as FrameError, Frame};
use proptest::prelude::*;
use serde::{Deserialize, Serialize};

use crate::{
    engine::{catch, panic_site, Env, Outcome, Prop, Tier},
    resp::{encoded, walk, F},
};

#[derive(Clone, Debug, Serialize, Deserialize)]
pub enum PCase {
    /// generator id (1 random, 2 valid + all truncations, 3 mutated, 4 number focused), bytes
    Bytes(u8, Vec<u8>),
    /// nesting stress: depth, variant
    Nest(u32, u8),
}

// ------------------------------------------------------------------------------------------
// generators

pub fn frame_strategy(depth: u32, write_side: bool) -> BoxedStrategy<F> {
    let text = prop_oneof![
        3 => "[ -~]{0,12}",
        1 => "\\PC{0,8}",
        1 => Just(String::new()),
    ]
    .prop_filter("no CR/LF", |s| !s.contains('\r') && !s.contains('\n'));
    let ints = prop_oneof![
        4 => any::<i64>(),
        2 => -20i64..20,
        1 => prop_oneof![Just(i64::MIN), Just(i64::MIN + 1), Just(-1i64), Just(0i64), Just(i64::MAX), Just(i64::MAX - 1)],
        2 => (0u32..19, any::<bool>(), -2i64..3).prop_map(|(e, neg, d)| {
            let p = 10i64.pow(e).saturating_add(d);
            if neg { -p } else { p }
        }),
    ];
    let bulk = prop_oneof![
        4 => proptest::collection::vec(any::<u8>(), 0..24),
        2 => proptest::collection::vec(prop_oneof![Just(b'\r'), Just(b'\n'), Just(0u8), Just(b'$'), Just(b'*'), Just(b'1')], 0..12),
        1 => proptest::collection::vec(any::<u8>(), 100..400),
    ];
    let leaf = prop_oneof![
        2 => text.clone().prop_map(F::Simple),
        1 => text.prop_map(F::Error),
        3 => ints.prop_map(F::Int),
        3 => bulk.prop_map(F::Bulk),
        1 => Just(F::Null),
    ]
    .boxed();
    if depth == 0 {
        return leaf;
    }
    if write_side {
        // flat arrays only: nested arrays are unimplemented!() on the write side
        prop_oneof![
            3 => leaf.clone(),
            2 => proptest::collection::vec(leaf, 0..8).prop_map(F::Array),
        ]
        .boxed()
    } else {
        leaf.prop_recursive(depth, 24, 5, |inner| proptest::collection::vec(inner, 0..5).prop_map(F::Array)).boxed()
    }
}

fn mutate(mut b: Vec<u8>, muts: &[(u8, u16, u8)]) -> Vec<u8> {
    for (kind, at, x) in muts {
        if b.is_empty() {
            b.push(*x);
            continue;
        }
        let i = (*at as usize * b.len()) >> 16;
        match kind % 7 {
            0 => b[i] ^= 1 << (x % 8),
            1 => b[i] = *x,
            2 => b.insert(i, *x),
            3 => {
                b.remove(i);
            }
            4 => b.insert(i, [b'-', b'+', b'\r', b'\n', b'$', b'*', b':', b'0'][*x as usize % 8]),
            5 => b.truncate(i),
            _ => {
                // splice a copy of a tail
                let tail = b[i..].to_vec();
                b.extend_from_slice(&tail[..tail.len().min(16)]);
            }
        }
    }
    b
}

fn number_case() -> BoxedStrategy<Vec<u8>> {
    (
        prop_oneof![2 => Just(None), 5 => (0usize..64).prop_map(Some)],
        prop_oneof![Just(b':'), Just(b'$'), Just(b'*')],
        prop_oneof![3 => Just(""), 1 => Just("+"), 3 => Just("-")],
        prop_oneof![
            3 => "[0-9]{0,40}",
            2 => "0{0,22}[0-9]{0,20}",
            3 => (prop_oneof![Just(i64::MAX as i128), Just(i64::MIN as i128), Just(1_000_000_000_000_000_000i128), Just(999_999_999_999_999_999i128), Just(u64::MAX as i128)], -3i128..4)
                .prop_map(|(v, d)| (v + d).abs().to_string()),
        ],
        prop_oneof![4 => Just("\r\n"), 1 => Just("\r"), 1 => Just(""), 1 => Just("\n"), 1 => Just("\rX"), 1 => Just("x\r\n")],
        proptest::collection::vec(any::<u8>(), 0..8),
    )
        .prop_map(|(pad, ty, sign, digits, term, tail)| {
            let mut b = Vec::new();
            if let Some(p) = pad {
                // an array whose first element is a bulk string of p bytes: the number then
                // starts at offset >= p
                b.extend_from_slice(b"*2\r\n$");
                b.extend_from_slice(p.to_string().as_bytes());
                b.extend_from_slice(b"\r\n");
                b.extend(std::iter::repeat(b'p').take(p));
                b.extend_from_slice(b"\r\n");
            }
            b.push(ty);
            b.extend_from_slice(sign.as_bytes());
            b.extend_from_slice(digits.as_bytes());
            b.extend_from_slice(term.as_bytes());
            if ty == b'$' {
                // give small bulk strings their payload so that parsing completes
                if let Ok(n) = digits.parse::<usize>() {
                    if n <= 64 && sign != "-" {
                        b.extend(std::iter::repeat(b'v').take(n));
                        b.extend_from_slice(b"\r\n");
                    }
                }
            }
            b.extend_from_slice(&tail);
            b
        })
        .boxed()
}

fn strategy(tier: Tier) -> BoxedStrategy<PCase> {
    let max_depth_log = tier.pick(20u32, 22u32);
    let muts = proptest::collection::vec((any::<u8>(), any::<u16>(), any::<u8>()), 1..4);
    prop_oneof![
        400 => prop_oneof![
            proptest::collection::vec(any::<u8>(), 0..64),
            proptest::collection::vec(prop_oneof![Just(b'*'), Just(b'$'), Just(b':'), Just(b'+'), Just(b'-'), Just(b'\r'), Just(b'\n'), Just(b'0'), Just(b'1'), Just(b'9'), any::<u8>()], 0..48),
        ].prop_map(|b| PCase::Bytes(1, b)),
        200 => frame_strategy(6, false).prop_map(|f| PCase::Bytes(2, encoded(&f))),
        500 => (frame_strategy(4, false), muts).prop_map(|(f, m)| PCase::Bytes(3, mutate(encoded(&f), &m))),
        900 => number_case().prop_map(|b| PCase::Bytes(4, b)),
        // nesting stress is expensive (one worker process per case): keep it a small share
        1 => (0u32..=max_depth_log, 0u32..1000, 0u8..4).prop_map(|(l, frac, v)| {
            let lo = 1u32 << l;
            PCase::Nest(lo + (lo as u64 * frac as u64 / 1000) as u32, v)
        }),
    ]
    .boxed()
}

// ------------------------------------------------------------------------------------------
// oracle

fn verdict_name<T>(r: &Result<T, FrameError>) -> &'static str {
    match r {
        Ok(_) => "ok",
        Err(FrameError::Incomplete) => "incomplete",
        Err(FrameError::BadEncoding) => "bad-encoding",
        Err(FrameError::NotInteger(_)) => "not-integer",
        Err(FrameError::NotUtf8(_)) => "not-utf8",
    }
}

pub struct OneResult {
    pub check: &'static str,
    pub parse: &'static str,
    pub nontrivial: bool,
}

/// Apply all oracles to one input.
pub fn run_one(b: &[u8]) -> Result<OneResult, (String, String)> {
    let show = || {
        let s = String::from_utf8_lossy(&b[..b.len().min(120)]).to_string();
        format!("{:?}{}", s, if b.len() > 120 { format!("… ({} bytes)", b.len()) } else { String::new() })
    };
    let rc = catch(|| {
        let mut c = Cursor::new(b);
        Frame::check(&mut c).map(|_| c.position() as usize)
    })
    .map_err(|p| (format!("check-panic:{}", panic_site(&p)), format!("Frame::check panicked on {}: {}", show(), p)))?;
    let rp = catch(|| {
        let mut c = Cursor::new(b);
        Frame::parse(&mut c).map(|f| (f, c.position() as usize))
    })
    .map_err(|p| (format!("parse-panic:{}", panic_site(&p)), format!("Frame::parse panicked on {}: {}", show(), p)))?;
    if let Ok((f, n)) = &rp {
        let mut pos = 0;
        if let Err(e) = walk(f, &b[..*n], &mut pos) {
            return Err(("misread".into(), format!("Frame::parse on {}: {}", show(), e)));
        }
        if pos != *n {
            return Err((
                "misread".into(),
                format!("Frame::parse on {} consumed {} bytes but the frame it returned accounts for {}", show(), n, pos),
            ));
        }
    }
    if let (Ok(n), Ok((_, m))) = (&rc, &rp) {
        // the connection checks, then parses the SAME buffer and discards the checked length:
        // if both succeed they must agree on the length
        if n != m {
            return Err((
                "check-parse-length-mismatch".into(),
                format!("on {} Frame::check accepted {} bytes but Frame::parse on the same buffer succeeded having consumed {}", show(), n, m),
            ));
        }
    }
    if let Ok(n) = &rc {
        let n = *n;
        if n > b.len() {
            return Err(("check-length-beyond-input".into(), format!("Frame::check on {} accepted {} bytes of {}", show(), n, b.len())));
        }
        let pre = &b[..n];
        let rp2 = catch(|| {
            let mut c = Cursor::new(pre);
            Frame::parse(&mut c).map(|f| (f, c.position() as usize))
        })
        .map_err(|p| (format!("parse-panic:{}", panic_site(&p)), format!("Frame::parse panicked on the {} bytes check accepted of {}: {}", n, show(), p)))?;
        if let Ok((f, m)) = rp2 {
            if m != n {
                return Err((
                    "check-parse-length-mismatch".into(),
                    format!("Frame::check accepted {} bytes of {} but parsing those bytes succeeded with length {}", n, show(), m),
                ));
            }
            let mut pos = 0;
            if let Err(e) = walk(&f, pre, &mut pos) {
                return Err(("misread".into(), format!("Frame::parse on the checked prefix of {}: {}", show(), e)));
            }
        }
    }
    let cn = verdict_name(&rc);
    let pn = verdict_name(&rp);
    let nontrivial = b.len() >= 4 && (cn != "incomplete" || pn != "incomplete")
        || matches!(&rp, Ok((Frame::Array(v), _)) if !v.is_empty());
    Ok(OneResult {
        check: cn,
        parse: pn,
        nontrivial,
    })
}

pub fn nest_bytes(depth: u32, variant: u8) -> Vec<u8> {
    let mut b = Vec::with_capacity(depth as usize * 8 + 8);
    match variant % 4 {
        0 => {
            for _ in 0..depth {
                b.extend_from_slice(b"*1\r\n");
            }
        }
        1 => {
            for _ in 0..depth {
                b.extend_from_slice(b"*2\r\n:1\r\n");
            }
        }
        2 => {
            for _ in 0..depth {
                b.extend_from_slice(b"*1\r\n");
            }
            b.extend_from_slice(b":1\r\n");
        }
        _ => {
            for _ in 0..depth {
                b.extend_from_slice(b"*1\r\n");
            }
            b.extend_from_slice(b"$-1\r\n");
        }
    }
    b
}

/// Worker: run check and parse on the bytes in `file` on a thread with `stack_kib` KiB of stack
/// (0 = main thread). Exits 0 unless the process dies.
pub fn worker_main(args: &[String]) -> i32 {
    crate::engine::install_panic_hook();
    let file = &args[0];
    let stack_kib: usize = args.get(1).and_then(|s| s.parse().ok()).unwrap_or(0);
    let b = std::fs::read(file).expect("worker input");
    let run = move || {
        let r = run_one(&b);
        match r {
            Ok(o) => println!("ok check={} parse={}", o.check, o.parse),
            Err((sig, msg)) => println!("fail {} {}", sig, msg.replace('\n', " ")),
        }
        // dropping deeply nested frames happened inside run_one already
    };
    if stack_kib == 0 {
        run();
    } else {
        let h = std::thread::Builder::new().stack_size(stack_kib * 1024).spawn(run).expect("spawn");
        let _ = h.join();
    }
    0
}

fn exec(c: &PCase, env: &Env) -> Outcome {
    let mut out = Outcome::pass();
    match c {
        PCase::Bytes(gen, b) => {
            out.label(format!("generator-{}", gen));
            let mut inputs: Vec<&[u8]> = vec![b.as_slice()];
            if *gen == 2 {
                // every truncation point (all of them up to 600 bytes, a boundary dense sample beyond)
                if b.len() <= 600 {
                    for p in 0..b.len() {
                        inputs.push(&b[..p]);
                    }
                } else {
                    for p in (0..b.len()).step_by(7) {
                        inputs.push(&b[..p]);
                    }
                }
            }
            let mut evals = 0;
            for inp in inputs {
                evals += 1;
                match run_one(inp) {
                    Ok(r) => {
                        if r.nontrivial {
                            out.nontrivial = true;
                        }
                        if evals == 1 {
                            out.label(format!("check:{}", r.check));
                            out.label(format!("parse:{}", r.parse));
                        }
                    }
                    Err((sig, msg)) => {
                        out.set_fail(sig, msg);
                        break;
                    }
                }
            }
            out.evals = evals;
            if *gen == 4 {
                // number offset / digit count classes
                let digits = b.iter().rev().skip_while(|c| !c.is_ascii_digit()).take_while(|c| c.is_ascii_digit()).count();
                if digits > 18 {
                    out.label("digits>18");
                }
                if b.len() > 18 + digits + 4 {
                    out.label("number-offset>18");
                }
            }
        }
        PCase::Nest(depth, variant) => {
            out.label("generator-5-nesting");
            if *depth > 1000 {
                out.label("depth>1000");
            }
            if *depth > 100_000 {
                out.label("depth>100000");
            }
            out.nontrivial = *depth >= 2;
            let bytes = nest_bytes(*depth, *variant);
            let f = env.scratch.join("nest-input.bin");
            std::fs::write(&f, &bytes).unwrap();
            let exe = std::env::current_exe().unwrap();
            // 2 MiB is the stack of the tokio workers that run the parser in the server
            for stack in ["2048", "0"] {
                let o = Command::new(&exe).arg("c07-worker").arg(&f).arg(stack).env_remove("LD_PRELOAD").output();
                match o {
                    Ok(o) => {
                        use std::os::unix::process::ExitStatusExt;
                        let so = String::from_utf8_lossy(&o.stdout).to_string();
                        if let Some(sig) = o.status.signal() {
                            let se = String::from_utf8_lossy(&o.stderr);
                            let why = if se.contains("overflowed its stack") { "stack overflow" } else { "abort" };
                            out.set_fail(
                                format!("process-terminated:{}", why.replace(' ', "-")),
                                format!(
                                    "{} levels of nested arrays (variant {}, {} bytes) on a {} stack: the process was terminated by signal {} ({})",
                                    depth,
                                    variant,
                                    bytes.len(),
                                    if stack == "0" { "main thread".to_string() } else { format!("{} KiB", stack) },
                                    sig,
                                    why
                                ),
                            );
                            break;
                        }
                        if let Some(rest) = so.strip_prefix("fail ") {
                            let mut it = rest.splitn(2, ' ');
                            let sig = it.next().unwrap_or("worker-fail").to_string();
                            out.set_fail(sig, format!("{} levels of nesting: {}", depth, it.next().unwrap_or("")));
                            break;
                        }
                    }
                    Err(e) => out.inconclusive = Some(format!("cannot run worker: {}", e)),
                }
            }
            let _ = std::fs::remove_file(&f);
            out.evals = 2;
        }
    }
    out
}

pub fn prop() -> Prop<PCase> {
    Prop {
        id: "C07",
        level: "exploration",
        rule: "Inputs are byte strings from five proptest generators: (1) uniform and RESP-alphabet random bytes; (2) grammar generated valid frames (nesting <= 6) with EVERY truncation point of their encoding; (3) mutations of valid frames (bit flips, inserted sign/terminator bytes, deletions, truncations, splices); (4) number focused inputs: optional padding element so the number starts at offset 0..64+, type ':'/'$'/'*', optional sign, 0-40 digits with leading zeros, values around i64::MIN/MAX, 10^18 and u64::MAX, damaged terminators; (5) nesting stress '*1\\r\\n' x d (four variants, d log-uniform up to 2^20 quick / 2^22 thorough) run in a worker process on a 2 MiB-stack thread and on the main thread. Frame::check and Frame::parse are applied to every input. Oracles: no panic, no process death; when parse returns a frame having consumed n bytes, a frame-guided walker re-derives every integer/length with 128-bit arithmetic and every payload by position (values must be exactly as written, out-of-range or negative lengths must not be accepted, the frame must account for exactly n bytes); when check accepts n bytes, parse on exactly those n bytes either fails or consumes n, and parse on the same (longer) buffer, which is what the connection does, either fails or consumes n. evaluations = inputs (truncations included). Non-trivial: the input has >= 4 bytes and one of the two functions returned a verdict other than Incomplete, or parse returned a non-empty array; distinct = distinct hash of the case.",
        assumptions: &[
            "leniencies of the real parser that the property does not forbid (byte after CR not checked to be LF, bytes after a bulk payload not checked to be CRLF, '$-2' accepted by check and rejected by parse) are not flagged: the walker is guided by the returned frame",
            "the harness is built with overflow checks on, so arithmetic overflow in the parser surfaces as a panic; the libFuzzer target (thorough) has the same oracle in-target",
        ],
        needs_shim: false,
        budget: |t| t.pick(8000000, 40000000),
        shards: |_| 16,
        strategy,
        exec,
        max_shrink_iters: 4000,
        replay_repeats: 1,
        watchdog_s: |t| t.pick(900, 7200),
    }
}
