//! C05 — compaction never changes what any key reads, now or after a restart.

use proptest::prelude::*;

use crate::{
    engine::{Env, Outcome, Prop, Tier},
    gen::{Hist, OpWeights},
    props::{c01::hist_labels, mergefam},
    store::{run_hist, Checks},
};

fn strategy(tier: Tier) -> BoxedStrategy<Hist> {
    mergefam::strategy(
        tier,
        OpWeights {
            set: 10,
            get: 1,
            del: 5,
            merge: 3,
            reopen: 2,
        },
        10,
    )
}

fn exec(h: &Hist, env: &Env) -> Outcome {
    let (f, st) = run_hist(
        h,
        &env.scratch,
        Checks {
            model: true,
            classify_d2: true,
            ..Checks::default()
        },
    );
    let mut out = Outcome::pass();
    out.fail = f;
    out.nontrivial = st.partial_merge_then_reopen > 0;
    hist_labels(&mut out, h, &st);
    out.count("merges", st.merges as u64);
    out.count("merges-selecting-a-proper-subset", st.merges_proper_subset as u64);
    out
}

pub fn prop() -> Prop<Hist> {
    Prop {
        id: "C05",
        level: "exploration",
        rule: "Cases are histories over set/get/del/merge/reopen with arbitrary merge thresholds (fragmentation, dead bytes, small file) so that merges select arbitrary subsets of files, a pool of 4-20 keys (half of the cases preload every key so old files stay mostly live) and max_file_size of a few entries. All pool keys are compared with a BTreeMap model right after every merge and after every later reopen. Non-trivial: a merge that removed a proper subset of the non-empty data files, executed after a delete or overwrite, and followed by a reopen; distinct = distinct hash of the whole case.",
        assumptions: &[
            "merges are run through the verif_merge hook at generated positions",
            "a mismatch after reopen is given the signature tombstone-dropped if the key is absent in the model, the store returns exactly what an independent scan of the surviving data files yields, and the file holding the key's last tombstone no longer exists (the defect D2, repaired in /repo 67f21c7; the signature is no longer tolerated)",
        ],
        needs_shim: false,
        budget: |t| t.pick(64000, 500000),
        shards: |_| 16,
        strategy,
        exec,
        max_shrink_iters: 6000,
        replay_repeats: 1,
        watchdog_s: |t| t.pick(600, 3600),
    }
}
