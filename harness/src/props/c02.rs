//! C02 — closing and reopening a store preserves exactly its contents, deletions included.

use proptest::prelude::*;

use crate::{
    engine::{Env, Outcome, Prop, Tier},
    gen::{cfg_strategy, key_strategy, op_strategy, Hist, Op, OpWeights, ValSizes},
    props::c01::hist_labels,
    store::{run_hist, Checks},
};

fn strategy(tier: Tier) -> BoxedStrategy<Hist> {
    let (maxops, sizes) = match tier {
        Tier::Quick => (50usize, ValSizes::Mixed),
        Tier::Thorough => (200usize, ValSizes::Huge),
    };
    (
        cfg_strategy(),
        proptest::collection::vec(key_strategy(true), 2..=8),
        proptest::collection::vec(
            op_strategy(
                OpWeights {
                    set: 10,
                    get: 2,
                    del: 6,
                    merge: 0,
                    reopen: 3,
                },
                sizes,
            ),
            1..maxops,
        ),
        // trailing reopen cycles with no write in between
        1usize..=4,
        // a third of the cases also run merges (under the case's arbitrary thresholds), inserted
        // at generated positions
        prop_oneof![2 => Just(Vec::<u16>::new()), 1 => proptest::collection::vec(any::<u16>(), 1..4)],
    )
        .prop_map(|(cfg, keys, mut ops, tail, merges)| {
            if !merges.is_empty() {
                for m in merges {
                    let at = (m as usize * (ops.len() + 1)) >> 16;
                    ops.insert(at, Op::Merge);
                }
            }
            for _ in 0..tail {
                ops.push(Op::Reopen);
            }
            Hist { cfg, keys, ops }
        })
        .boxed()
}

fn exec(h: &Hist, env: &Env) -> Outcome {
    let (f, st) = run_hist(
        h,
        &env.scratch,
        Checks {
            model: true,
            ..Checks::default()
        },
    );
    let mut out = Outcome::pass();
    out.fail = f;
    out.nontrivial = st.reopen_after_del_or_cross_overwrite > 0;
    hist_labels(&mut out, h, &st);
    if st.reopens >= 3 {
        out.label("reopens>=3");
    }
    out
}

pub fn prop() -> Prop<Hist> {
    Prop {
        id: "C02",
        level: "exploration",
        rule: "Cases are histories over set/get/del/reopen (a third of them also contain merges, under arbitrary thresholds) (deletes of present and absent keys, re-sets after delete, many files because max_file_size is drawn small) ending in 1-4 consecutive reopen cycles, run against the real store and a BTreeMap model; after every reopen all pool keys are read and the reopened index key set is compared with the model. Non-trivial: a reopen that follows a delete of a present key or an overwrite whose two versions sit in different data files; distinct = distinct hash of the whole case.",
        assumptions: &["clean close (drop of the store object) before every reopen; crashes are C03's subject"],
        needs_shim: false,
        budget: |t| t.pick(64000, 400000),
        shards: |_| 16,
        strategy,
        exec,
        max_shrink_iters: 4000,
        replay_repeats: 1,
        watchdog_s: |t| t.pick(600, 3600),
    }
}
