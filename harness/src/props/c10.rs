//! C10 — hostile or malformed input harms only the connection that sent it.
//!
//! The server runs in a child process (`vh serve`), because the failure of interest (stack
//! overflow, abort) kills the whole process.

use std::{
    collections::BTreeMap,
    io::{BufRead, BufReader, Write},
    process::{Child, Command, Stdio},
    time::{Duration, Instant},
};

use proptest::prelude::*;
use serde::{Deserialize, Serialize};

use crate::{
    engine::{Env, Outcome, Prop, Tier},
    gen::{val_bytes, ValSpec},
    netfx::{probe, RawClient},
    props::c07::{frame_strategy, nest_bytes},
    resp::{command, encoded, F},
    store::open_caught,
};

#[derive(Clone, Debug, Serialize, Deserialize)]
pub enum Attack {
    Random(Vec<u8>),
    /// valid RESP that is not a command
    NonCommand(F),
    /// structurally bad commands; variant, target key index byte
    BadCommand(u8, u8),
    /// a well-formed command cut at a fraction; then close (true) or idle (false)
    Truncated(u16, bool),
    /// nesting stress: depth, variant
    Nest(u32, u8),
    /// '$' or '*' header with an absurd length
    AbsurdLen(bool, String, bool),
    /// integer edge shapes (D4 family)
    IntEdge(u8),
    /// connect and abort at once with RST (SO_LINGER 0), possibly before the server accepts
    Reset,
}

#[derive(Clone, Debug, Serialize, Deserialize)]
pub struct HostileConn {
    /// well-formed commands on this connection's own namespace, sent first: (is_set, key#, value len)
    pub prefix: Vec<(bool, u8, u16)>,
    pub attacks: Vec<Attack>,
}

#[derive(Clone, Debug, Serialize, Deserialize)]
pub struct CtlReq {
    pub kind: u8,
    pub key: u8,
    pub val: ValSpec,
}

#[derive(Clone, Debug, Serialize, Deserialize)]
pub struct HostileCase {
    pub hostiles: Vec<HostileConn>,
    pub controls: Vec<Vec<CtlReq>>,
}

fn attack_strategy(tier: Tier) -> BoxedStrategy<Attack> {
    let maxlog = tier.pick(20u32, 20u32);
    prop_oneof![
        3 => proptest::collection::vec(any::<u8>(), 1..200).prop_map(Attack::Random),
        2 => proptest::collection::vec(prop_oneof![Just(b'*'), Just(b'$'), Just(b':'), Just(b'+'), Just(b'-'), Just(b'\r'), Just(b'\n'), Just(b'0'), Just(b'1'), Just(b'9')], 1..64).prop_map(Attack::Random),
        3 => frame_strategy(3, false).prop_map(Attack::NonCommand),
        10 => (0u8..34, any::<u8>()).prop_map(|(v, k)| Attack::BadCommand(v, k)),
        3 => (1u16..u16::MAX, any::<bool>()).prop_map(|(f, c)| Attack::Truncated(f, c)),
        2 => (0u32..=maxlog, 0u32..1000, 0u8..4).prop_map(|(l, frac, v)| {
            let lo = 1u32 << l;
            Attack::Nest(lo + (lo as u64 * frac as u64 / 1000) as u32, v)
        }),
        3 => (any::<bool>(), prop_oneof![
                Just("1000000000".to_string()), Just("9223372036854775807".to_string()), Just("9223372036854775808".to_string()),
                Just("18446744073709551616".to_string()), Just("-5".to_string()), Just("99999999999999999999999".to_string()),
                "[1-9][0-9]{8,22}"
            ], any::<bool>()).prop_map(|(b, d, c)| Attack::AbsurdLen(b, d, c)),
        2 => (0u8..8).prop_map(Attack::IntEdge),
        1 => Just(Attack::Reset),
    ]
    .boxed()
}

fn strategy(tier: Tier) -> BoxedStrategy<HostileCase> {
    let hostile = (
        proptest::collection::vec((any::<bool>(), any::<u8>(), 0u16..300), 0..4),
        proptest::collection::vec(attack_strategy(tier), 1..3),
    )
        .prop_map(|(prefix, attacks)| HostileConn { prefix, attacks });
    let ctl = proptest::collection::vec(
        (0u8..3, any::<u8>(), (0u32..2000, any::<u8>())).prop_map(|(kind, key, (len, seed))| CtlReq {
            kind,
            key,
            val: ValSpec { len, seed },
        }),
        4..24,
    );
    (proptest::collection::vec(hostile, 1..=7), proptest::collection::vec(ctl, 1..=2))
        .prop_map(|(hostiles, controls)| HostileCase { hostiles, controls })
        .boxed()
}

// ------------------------------------------------------------------------------------------
// server child

/// `vh serve <dir> <port> <max_connections>`: svr.rs with a control pipe. Prints READY when
/// listening, shuts down gracefully when stdin is closed.
pub fn serve_main(args: &[String]) -> i32 {
    let dir = std::path::PathBuf::from(&args[0]);
    let port: u16 = args[1].parse().unwrap();
    let max_connections: usize = args[2].parse().unwrap();
    let cfg = crate::props::c06::net_store_cfg(2 << 30);
    let kv = match open_caught(&cfg, &dir) {
        Ok(kv) => kv,
        Err(e) => {
            println!("OPENFAIL {}", e);
            return 3;
        }
    };
    let rt = tokio::runtime::Builder::new_multi_thread().enable_all().build().unwrap();
    let handle = kv.get_handle();
    let code = rt.block_on(async move {
        let conf = bitcask::net::Config {
            host: "127.0.0.1".parse().unwrap(),
            port,
            min_backoff_ms: 500,
            max_backoff_ms: 64000,
            max_connections,
        };
        let shutdown = async {
            // stdin closed by the parent
            let _ = tokio::task::spawn_blocking(|| {
                let mut s = String::new();
                let _ = std::io::stdin().read_line(&mut s);
            })
            .await;
        };
        match conf.async_server(handle, shutdown).await {
            Ok(server) => {
                println!("READY");
                let _ = std::io::stdout().flush();
                server.run().await;
                0
            }
            Err(e) => {
                println!("BINDFAIL {}", e);
                4
            }
        }
    });
    drop(kv);
    code
}

struct ServerChild {
    child: Child,
    port: u16,
}

fn start_child(dir: &std::path::Path, max_conn: usize) -> Result<ServerChild, String> {
    let exe = std::env::current_exe().map_err(|e| e.to_string())?;
    for attempt in 0..50u32 {
        let port = (21000 + ((std::process::id().wrapping_mul(6151).wrapping_add(attempt.wrapping_mul(17)).wrapping_add(PORTC.fetch_add(1, std::sync::atomic::Ordering::SeqCst) * 29)) % 38000)) as u16;
        let mut child = Command::new(&exe)
            .arg("serve")
            .arg(dir)
            .arg(port.to_string())
            .arg(max_conn.to_string())
            .env_remove("LD_PRELOAD")
            .stdin(Stdio::piped())
            .stdout(Stdio::piped())
            .stderr(Stdio::piped())
            .spawn()
            .map_err(|e| e.to_string())?;
        let mut line = String::new();
        let mut rd = BufReader::new(child.stdout.take().unwrap());
        let _ = rd.read_line(&mut line);
        if line.starts_with("READY") {
            // keep stdout drained in the background
            std::thread::spawn(move || {
                let mut sink = String::new();
                while rd.read_line(&mut sink).map(|n| n > 0).unwrap_or(false) {
                    sink.clear();
                }
            });
            return Ok(ServerChild { child, port });
        }
        let _ = child.kill();
        let _ = child.wait();
        if !line.starts_with("BINDFAIL") {
            return Err(format!("server child did not start: {:?}", line));
        }
    }
    Err("no free port".into())
}

static PORTC: std::sync::atomic::AtomicU32 = std::sync::atomic::AtomicU32::new(0);

// ------------------------------------------------------------------------------------------

fn hostile_key(conn: usize, k: u8) -> Vec<u8> {
    format!("h{}:{}", conn, k % 3).into_bytes()
}
fn control_key(conn: usize, k: u8) -> Vec<u8> {
    format!("ctl{}:{}", conn, k % 3).into_bytes()
}

fn attack_bytes(a: &Attack, ncontrols: usize) -> (Vec<u8>, bool, &'static str) {
    // returns (bytes, close_after, category)
    match a {
        Attack::Random(b) => {
            // never contain the control prefix or a well-formed SET/DEL: drop 'ctl' and upper case command names
            let mut b = b.clone();
            for w in [b"ctl".as_slice(), b"SET".as_slice(), b"DEL".as_slice()] {
                while let Some(p) = b.windows(w.len()).position(|x| x == w) {
                    b[p] = b'_';
                }
            }
            (b, true, "random-bytes")
        }
        Attack::NonCommand(f) => {
            // arrays whose first element is SET/DEL/GET could be commands: prefix with a non-command
            let f2 = match f {
                F::Array(items) => {
                    let mut v = vec![F::Bulk(b"NOPE".to_vec())];
                    v.extend(items.iter().cloned());
                    F::Array(v)
                }
                other => other.clone(),
            };
            (encoded(&f2), false, "valid-resp-not-a-command")
        }
        Attack::BadCommand(v, k) => {
            let ck = control_key(*k as usize % ncontrols.max(1), *k);
            let nil = F::Null;
            let b = match v % 34 {
                // a SET / DEL of a CONTROL key that is well-formed except that its length prefixes (all
                // of them, or the array header alone) end in <byte> LF instead of CR LF
                26..=33 => {
                    let term: &[u8] = [&b";\n"[..], b" \n", b"x\n", b"\n\n"][(v % 34 - 26) as usize % 4];
                    let only_header = v % 34 >= 30;
                    let args: Vec<&[u8]> = if k % 2 == 0 { vec![b"SET", &ck, b"hijacked"] } else { vec![b"DEL", &ck] };
                    let mut out = format!("*{}", args.len()).into_bytes();
                    out.extend_from_slice(term);
                    for a in args {
                        out.extend_from_slice(format!("${}", a.len()).as_bytes());
                        out.extend_from_slice(if only_header { b"\r\n" } else { term });
                        out.extend_from_slice(a);
                        out.extend_from_slice(b"\r\n");
                    }
                    out
                }
                // names that are near misses of the three commands, with a fitting argument count
                18 => command(&[b"DELETE", &ck]),
                19 => command(&[b"SETNX", &ck, b"hijacked"]),
                20 => command(&[b"", &ck]),
                21 => command(&[b"S", &ck, b"x"]),
                22 => command(&[b"DE", &ck]),
                23 => command(&[b"SETEX", &ck, b"x"]),
                24 => command(&[b"GETSET", &ck, b"x"]),
                25 => command(&[b"DEL ", &ck]),
                // a DEL/GET/SET whose leading arguments are fine and name CONTROL keys, followed
                // by one malformed argument: nothing of it may be applied
                10 => command(&[b"DEL", &ck, b"\xff\xfe"]),
                11 => encoded(&F::Array(vec![F::Bulk(b"DEL".to_vec()), F::Bulk(ck.clone()), F::Int(5)])),
                12 => encoded(&F::Array(vec![F::Bulk(b"DEL".to_vec()), F::Bulk(ck.clone()), nil.clone()])),
                13 => encoded(&F::Array(vec![F::Bulk(b"DEL".to_vec()), F::Bulk(ck.clone()), F::Bulk(ck.clone()), F::Simple("x".into())])),
                14 => encoded(&F::Array(vec![F::Bulk(b"SET".to_vec()), F::Bulk(ck.clone()), F::Int(7)])),
                15 => encoded(&F::Array(vec![F::Bulk(b"SET".to_vec()), F::Bulk(ck.clone()), F::Bulk(b"v".to_vec()), nil])),
                16 => encoded(&F::Array(vec![F::Bulk(b"DEL".to_vec()), F::Bulk(ck.clone()), F::Array(vec![])])),
                17 => command(&[b"Del", &ck]),
                0 => command(&[b"SET", &ck]),                              // missing value
                1 => command(&[b"SET", &ck, b"x", b"extra"]),              // extra argument
                2 => command(&[b"GET"]),                                   // missing key
                3 => command(&[b"GET", &ck, b"extra"]),
                4 => command(&[b"DEL"]),                                   // no keys
                5 => command(&[b"SET", b"\xff\xfe\xfd", b"v"]),            // non UTF-8 key
                6 => command(&[b"set", &ck, b"lowercase"]),               // lower case name
                7 => command(&[b"FLUSHALL"]),                              // unknown command
                8 => encoded(&F::Array(vec![F::Bulk(b"SET".to_vec()), F::Int(5), F::Bulk(b"v".to_vec())])), // non bulk argument
                _ => encoded(&F::Array(vec![F::Simple("SET".into()), F::Bulk(ck.clone()), F::Bulk(b"v".to_vec())])), // name not a bulk
            };
            (b, false, "structurally-bad-command")
        }
        Attack::Truncated(frac, close) => {
            let b = command(&[b"SET", b"h-trunc", b"some value that is never applied"]);
            let keep = 1 + ((*frac as usize * (b.len() - 1)) >> 16);
            (b[..keep.min(b.len() - 1)].to_vec(), *close, "truncated-command")
        }
        Attack::Nest(d, v) => (nest_bytes(*d, *v), false, "nesting-stress"),
        Attack::AbsurdLen(bulk, digits, crlf) => {
            let mut b = vec![if *bulk { b'$' } else { b'*' }];
            b.extend_from_slice(digits.as_bytes());
            if *crlf {
                b.extend_from_slice(b"\r\n");
            }
            (b, false, "absurd-length")
        }
        Attack::IntEdge(v) => {
            let b: &[u8] = match v % 8 {
                0 => b":-",
                1 => b"$+",
                2 => b"*1\r\n:-",
                3 => b"*2\r\n$20\r\npppppppppppppppppppp\r\n:99999999999999999999\r\n",
                4 => b"*-",
                5 => b":\r\n",
                6 => b"$-\r\n",
                _ => b"*+\r",
            };
            (b.to_vec(), false, "integer-edge")
        }
        Attack::Reset => (Vec::new(), true, "abortive-connect"),
    }
}

fn exec(c: &HostileCase, env: &Env) -> Outcome {
    let mut out = Outcome::pass();
    if c.hostiles.is_empty() || c.controls.is_empty() {
        return out;
    }
    let dir = env.fresh_dir("hostile-store");
    // a small limit: connection slots leaked by hostile connections would starve the others
    let mut srv = match start_child(&dir, 4) {
        Ok(s) => s,
        Err(e) => {
            out.inconclusive = Some(e);
            return out;
        }
    };
    let addr = format!("127.0.0.1:{}", srv.port);
    let ncontrols = c.controls.len();

    // control connections run in threads, hostile ones from this thread, interleaved in time
    let mut ctl_joins = Vec::new();
    for (ci, prog) in c.controls.iter().cloned().enumerate() {
        let addr = addr.clone();
        ctl_joins.push(std::thread::spawn(move || -> Result<BTreeMap<Vec<u8>, Vec<u8>>, (String, String)> {
            let mut model: BTreeMap<Vec<u8>, Vec<u8>> = BTreeMap::new();
            let mut cl = RawClient::connect(&addr).map_err(|e| ("control-connect-failed".to_string(), e))?;
            for (i, r) in prog.iter().enumerate() {
                let key = control_key(ci, r.key);
                let (bytes, want) = match r.kind % 3 {
                    0 => {
                        let v = val_bytes(&r.val, i as u64);
                        let b = command(&[b"SET", &key, &v]);
                        model.insert(key.clone(), v);
                        (b, F::Simple("OK".into()))
                    }
                    1 => (
                        command(&[b"GET", &key]),
                        match model.get(&key) {
                            Some(v) => F::Bulk(v.clone()),
                            None => F::Null,
                        },
                    ),
                    _ => (command(&[b"DEL", &key]), F::Int(model.remove(&key).is_some() as i64)),
                };
                cl.send(&bytes).map_err(|e| ("control-connection-broken".to_string(), format!("control {} request #{}: {}", ci, i, e)))?;
                let got = cl
                    .read_replies(1, Duration::from_secs(10))
                    .map_err(|e| ("control-connection-broken".to_string(), format!("control {} request #{}: {}", ci, i, e)))?;
                if got[0] != want {
                    return Err((
                        "control-wrong-reply".into(),
                        format!("control {} request #{}: reply {} but the model says {}", ci, i, crate::props::c06::short_f(&got[0]), crate::props::c06::short_f(&want)),
                    ));
                }
                std::thread::sleep(Duration::from_micros(300));
            }
            cl.close();
            Ok(model)
        }));
    }

    let mut hostile_model: BTreeMap<Vec<u8>, Vec<u8>> = BTreeMap::new();
    let mut verdict: Option<(String, String)> = None;
    let mut reached_error_path = false;
    let mut idle_conns: Vec<RawClient> = Vec::new();
    'conns: for (hi, h) in c.hostiles.iter().enumerate() {
        let mut cl = match RawClient::connect(&addr) {
            Ok(c) => c,
            Err(e) => {
                verdict = Some(("server-refuses-connections".into(), format!("hostile connection {} could not connect: {}", hi, e)));
                break;
            }
        };
        // well-formed prefix on its own namespace
        let mut expected_replies = 0;
        for (i, (is_set, k, len)) in h.prefix.iter().enumerate() {
            let key = hostile_key(hi, *k);
            if *is_set {
                let v = val_bytes(&ValSpec { len: *len as u32, seed: *k }, i as u64);
                let _ = cl.send(&command(&[b"SET", &key, &v]));
                hostile_model.insert(key, v);
            } else {
                let _ = cl.send(&command(&[b"DEL", &key]));
                hostile_model.remove(&key);
            }
            expected_replies += 1;
        }
        if expected_replies > 0 {
            if let Err(e) = cl.read_replies(expected_replies, Duration::from_secs(10)) {
                verdict = Some(("hostile-prefix-not-answered".into(), format!("hostile connection {}: its well-formed prefix was not answered: {}", hi, e)));
                break;
            }
        }
        for a in &h.attacks {
            let (bytes, close_after, cat) = attack_bytes(a, ncontrols);
            out.label(format!("attack:{}", cat));
            if cat == "abortive-connect" {
                // a second connection that is reset right after the handshake
                if let Ok(x) = RawClient::connect(&addr) {
                    x.abort();
                }
                continue;
            }
            // large streams are sent in chunks; a send error means the server already closed
            for chunk in bytes.chunks(1 << 16) {
                if cl.send(chunk).is_err() {
                    break;
                }
            }
            if close_after || cat == "truncated-command" {
                // nothing may follow a truncated command on the same connection: later bytes
                // would complete it into a well-formed one
                break;
            }
            // see whether the server reacts: reply bytes, or end of stream
            let t0 = Instant::now();
            while t0.elapsed() < Duration::from_millis(30) && !cl.eof {
                cl.pump(Duration::from_millis(5));
            }
            if cl.eof {
                if cat != "random-bytes" {
                    reached_error_path = true;
                }
                break;
            }
        }
        // a hostile connection receives replies only for its well-formed prefix
        cl.pump(Duration::from_millis(1));
        let extra = &cl.rx[cl.parsed..];
        if !extra.is_empty() {
            verdict = Some((
                "hostile-input-answered".into(),
                format!(
                    "hostile connection {} received {} bytes beyond the replies to its well-formed prefix: {:?}",
                    hi,
                    extra.len(),
                    String::from_utf8_lossy(&extra[..extra.len().min(60)])
                ),
            ));
            break 'conns;
        }
        // hostile connections end here (idle ones too): with the small connection limit a later
        // connection must never wait for a slot that is legitimately held
        let _ = &mut idle_conns;
        cl.close();
    }

    // collect the control results
    let mut control_model: BTreeMap<Vec<u8>, Vec<u8>> = BTreeMap::new();
    for j in ctl_joins {
        match j.join().expect("control thread") {
            Ok(m) => control_model.extend(m),
            Err((sig, msg)) => {
                if verdict.is_none() {
                    verdict = Some((sig, msg));
                }
            }
        }
    }
    // is the server process still alive, and does it serve a new connection?
    use std::os::unix::process::ExitStatusExt;
    let died = srv.child.try_wait().ok().flatten();
    if let Some(st) = died {
        let mut err = String::new();
        if let Some(mut e) = srv.child.stderr.take() {
            use std::io::Read;
            let _ = e.read_to_string(&mut err);
        }
        let why = if err.contains("overflowed its stack") { "stack overflow" } else { "abort" };
        verdict = Some((
            format!("server-process-died:{}", why.replace(' ', "-")),
            format!(
                "the server process was terminated (signal {:?}, exit code {:?}; {}) by input from one connection: {}",
                st.signal(),
                st.code(),
                why,
                err.lines().filter(|l| l.contains("overflow") || l.contains("panicked") || l.contains("memory allocation")).take(2).collect::<Vec<_>>().join(" | ")
            ),
        ));
    } else if verdict.is_none() {
        match probe(&addr, b"ctl-probe", Duration::from_secs(10)) {
            Ok(F::Null) => {}
            Ok(other) => verdict = Some(("probe-wrong-reply".into(), format!("a fresh connection got {:?} for a GET of an unused key", other))),
            Err(e) => {
                // died meanwhile?
                std::thread::sleep(Duration::from_millis(50));
                if let Some(st) = srv.child.try_wait().ok().flatten() {
                    verdict = Some(("server-process-died:abort".into(), format!("the server process was terminated (signal {:?})", st.signal())));
                } else {
                    verdict = Some(("server-unresponsive".into(), format!("after the hostile input a fresh connection is not served: {}", e)));
                }
            }
        }
    }
    // data integrity, read over a fresh connection
    if verdict.is_none() {
        let mut all: BTreeMap<Vec<u8>, Option<Vec<u8>>> = BTreeMap::new();
        for ci in 0..ncontrols {
            for k in 0..3u8 {
                let key = control_key(ci, k);
                all.insert(key.clone(), control_model.get(&key).cloned());
            }
        }
        for hi in 0..c.hostiles.len() {
            for k in 0..3u8 {
                let key = hostile_key(hi, k);
                all.insert(key.clone(), hostile_model.get(&key).cloned());
            }
        }
        all.insert(b"h-trunc".to_vec(), None);
        if let Ok(mut cl) = RawClient::connect(&addr) {
            for (key, want) in &all {
                let _ = cl.send(&command(&[b"GET", key]));
                match cl.read_replies(1, Duration::from_secs(10)) {
                    Ok(r) => {
                        let got = match &r[0] {
                            F::Bulk(b) => Some(b.clone()),
                            _ => None,
                        };
                        if got != *want {
                            verdict = Some((
                                "data-changed-by-hostile-input".into(),
                                format!(
                                    "key {:?} holds {:?} bytes, expected {:?} (stored data may change only through well-formed SET and DEL)",
                                    String::from_utf8_lossy(key),
                                    got.map(|v| v.len()),
                                    want.as_ref().map(|v| v.len())
                                ),
                            ));
                            break;
                        }
                    }
                    Err(e) => {
                        verdict = Some(("server-unresponsive".into(), format!("integrity read failed: {}", e)));
                        break;
                    }
                }
            }
            cl.close();
        }
    }
    for cl in idle_conns {
        cl.close();
    }
    // stop the child: closing stdin triggers the graceful shutdown
    drop(srv.child.stdin.take());
    let t0 = Instant::now();
    let mut exited = false;
    while t0.elapsed() < Duration::from_secs(10) {
        if srv.child.try_wait().ok().flatten().is_some() {
            exited = true;
            break;
        }
        std::thread::sleep(Duration::from_millis(2));
    }
    if !exited {
        let _ = srv.child.kill();
        let _ = srv.child.wait();
    }
    // no other key exists: open the directory ourselves
    if verdict.is_none() && exited {
        if let Ok(kv) = open_caught(&crate::props::c06::net_store_cfg(2 << 30), &dir) {
            let d = kv.get_handle().verif_dump();
            for (k, _, _, _) in &d.keydir {
                let ks = k.to_vec();
                let known = control_model.contains_key(&ks) || hostile_model.contains_key(&ks);
                if !known {
                    verdict = Some((
                        "unexpected-key-in-store".into(),
                        format!("after the run the store holds key {:?} which no well-formed SET created", String::from_utf8_lossy(&ks)),
                    ));
                    break;
                }
            }
        }
    }
    out.nontrivial = reached_error_path;
    if let Some((sig, msg)) = verdict {
        out.set_fail(sig, msg);
    }
    let _ = std::fs::remove_dir_all(&dir);
    out
}

pub fn prop() -> Prop<HostileCase> {
    Prop {
        id: "C10",
        level: "exploration",
        rule: "Cases: 1-4 hostile connections, each sending an optional well-formed prefix (SET/DEL on its own namespace) and then 1-2 generated attacks from a grammar of categories: random bytes; valid RESP that is not a command; structurally bad commands (missing/extra arguments, non-UTF-8 key, non-bulk arguments, lower-case or unknown name - several of them naming CONTROL keys); truncated commands followed by close or by idling; nesting stress up to 2^20 levels (4 MiB); absurd '$'/'*' lengths (10^9 .. beyond u64, negative); integer edge shapes. Concurrently 1-2 control connections run model-checked SET/GET/DEL traffic on a disjoint namespace. The server runs in a child process (svr.rs with a control pipe). Oracle: the server process is alive at the end and serves a new connection; every control reply equals the model; afterwards control keys read per model, hostile-namespace keys hold exactly what their well-formed prefix commands set, keys named by malformed commands are unchanged, no other key exists (the directory is opened after the child exits); a hostile connection receives replies only for its well-formed prefix. Non-trivial: a hostile stream from a structured category was ended by the server (error path reached) while control traffic was running; distinct = distinct hash of the case.",
        assumptions: &[
            "resource exhaustion by honestly sending gigabytes is outside the generated domain (streams are bounded at 4 MiB; absurd lengths are headers, not payloads)",
            "hostile generators never contain the control prefix or a well-formed SET/DEL other than the designated prefix commands",
        ],
        needs_shim: false,
        budget: |t| t.pick(6400, 40000),
        shards: |_| 16,
        strategy,
        exec,
        max_shrink_iters: 100,
        replay_repeats: 3,
        watchdog_s: |t| t.pick(900, 7200),
    }
}
