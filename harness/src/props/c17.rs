//! C17 — a closed store rejects all use and stops its background worker.

use std::{
    collections::BTreeMap,
    time::{Duration, Instant},
};

use bitcask::storage::{
    bitcask::{Error, Handle},
    KeyValueStorage,
};
use bytes::Bytes;
use proptest::prelude::*;
use serde::{Deserialize, Serialize};

use crate::{
    engine::{catch, hash64, Env, Outcome, Prop, Tier},
    gen::{key_bytes, key_strategy, pick, val_bytes, val_strategy, KeySpec, StoreCfg, ValSizes, ValSpec},
    store::{config_json, thread_count, Model},
};

#[derive(Clone, Debug, Serialize, Deserialize)]
pub struct Cycle {
    /// ops before the drop: (0 set / 1 del, key, value)
    pub prefix: Vec<(u8, u8, ValSpec)>,
    pub clones: u8,
    pub drop_delay_us: u32,
    /// ops through the remaining handles after the drop: 0 set, 1 get, 2 del, 3 merge
    pub post: Vec<(u8, u8)>,
    /// open the next store before waiting for the old worker to exit
    pub reopen_at_once: bool,
    /// right before the drop, run one merge pass that fails half-way (transient ENOSPC when it
    /// creates its hint file), so that the writer is left with unfinished business
    #[serde(default)]
    pub failed_merge_before_drop: bool,
    /// hold the background worker at its schedule point right after the merge timer fired ("about
    /// to merge"), drop the store there, then let the worker go on
    #[serde(default)]
    pub drop_when_about_to_merge: bool,
}

#[derive(Clone, Debug, Serialize, Deserialize)]
pub struct CloseCase {
    pub policy_always: bool,
    pub check_interval_ms: u64,
    pub jitter_pct: u8,
    /// 0 none, 1 always, >1 interval in ms
    pub sync: u32,
    pub max_file_size: u64,
    pub keys: Vec<KeySpec>,
    pub cycles: Vec<Cycle>,
}

fn strategy(tier: Tier) -> BoxedStrategy<CloseCase> {
    let maxcycles = tier.pick(8usize, 30usize);
    let cycle = (
        proptest::collection::vec((0u8..2, any::<u8>(), val_strategy(ValSizes::Small)), 0..8),
        0u8..4,
        prop_oneof![3 => Just(0u32), 3 => 1u32..3000, 2 => 3000u32..30000],
        proptest::collection::vec((prop_oneof![2 => Just(0u8), 4 => Just(1u8), 2 => Just(2u8), 1 => Just(3u8)], any::<u8>()), 1..12),
        any::<bool>(),
        prop_oneof![3 => Just(false), 1 => Just(true)],
        prop_oneof![2 => Just(false), 1 => Just(true)],
    )
        .prop_map(|(prefix, clones, drop_delay_us, post, reopen_at_once, failed_merge_before_drop, drop_when_about_to_merge)| Cycle {
            prefix,
            clones,
            drop_delay_us,
            post,
            reopen_at_once,
            failed_merge_before_drop,
            drop_when_about_to_merge,
        });
    (
        any::<bool>(),
        prop_oneof![2 => 1u64..20, 2 => 20u64..200, 3 => Just(60_000u64), 3 => Just(3_600_000u64)],
        0u8..=100,
        prop_oneof![2 => Just(0u32), 1 => Just(1u32), 2 => 5u32..100],
        prop_oneof![Just(0u64), 50u64..500, Just(2u64 << 30)],
        proptest::collection::vec(key_strategy(false), 2..=5),
        proptest::collection::vec(cycle, 1..=maxcycles),
    )
        .prop_map(|(policy_always, check_interval_ms, jitter_pct, sync, max_file_size, keys, cycles)| CloseCase {
            policy_always,
            check_interval_ms,
            jitter_pct,
            sync,
            max_file_size,
            keys,
            cycles,
        })
        .boxed()
}

fn fd_count() -> usize {
    std::fs::read_dir("/proc/self/fd").map(|rd| rd.count()).unwrap_or(0)
}

fn dir_fingerprint(dir: &std::path::Path) -> BTreeMap<String, (u64, u64)> {
    let mut m = BTreeMap::new();
    if let Ok(rd) = std::fs::read_dir(dir) {
        for e in rd.filter_map(|e| e.ok()) {
            let b = std::fs::read(e.path()).unwrap_or_default();
            m.insert(e.file_name().to_string_lossy().to_string(), (b.len() as u64, hash64(&b)));
        }
    }
    m
}

fn wait_until(limit: Duration, mut f: impl FnMut() -> bool) -> bool {
    let t0 = Instant::now();
    loop {
        if f() {
            return true;
        }
        if t0.elapsed() > limit {
            return false;
        }
        std::thread::sleep(Duration::from_micros(200));
    }
}

/// Post-drop ops on a helper thread: an op that never returns must not take the harness with it.
fn post_ops(handles: &[Handle], keys: &[Vec<u8>], post: &[(u8, u8)], tag: u64) -> Result<(), (String, String)> {
    let (h, k, p) = (handles.to_vec(), keys.to_vec(), post.to_vec());
    let (tx, rx) = std::sync::mpsc::channel();
    std::thread::spawn(move || {
        let _ = tx.send(post_ops_inner(&h, &k, &p, tag));
    });
    match rx.recv_timeout(Duration::from_secs(10)) {
        Ok(r) => r,
        Err(_) => Err((
            "post-drop-op-hung".into(),
            format!("{} operations through remaining handles of a dropped store did not all return within 10 s (an operation hangs instead of failing with 'closed')", post.len()),
        )),
    }
}

fn post_ops_inner(handles: &[Handle], keys: &[Vec<u8>], post: &[(u8, u8)], tag: u64) -> Result<(), (String, String)> {
    for (i, (kind, k)) in post.iter().enumerate() {
        let h = handles[i % handles.len()].clone();
        let key = Bytes::from(keys[pick(*k, keys.len())].clone());
        let name = ["set", "get", "del", "merge"][*kind as usize % 4];
        let r: Result<Result<(), Error>, String> = match kind % 4 {
            0 => catch(move || h.set(key, Bytes::from(format!("post-drop-{}-{}", tag, i).into_bytes()))),
            1 => catch(move || h.get(key).map(|_| ())),
            2 => catch(move || h.del(key).map(|_| ())),
            _ => catch(move || h.verif_merge()),
        };
        match r {
            Ok(Err(Error::Closed)) => {}
            Ok(Err(e)) => {
                return Err((
                    "post-drop-op-wrong-error".into(),
                    format!("{} through a remaining handle after the store was dropped failed with {:?} instead of the 'closed' error", name, e.to_string()),
                ))
            }
            Ok(Ok(())) => {
                return Err((
                    "post-drop-op-succeeded".into(),
                    format!("{} through a remaining handle succeeded after the store object was dropped", name),
                ))
            }
            Err(p) => return Err(("post-drop-op-panicked".into(), format!("{} after drop panicked: {}", name, p))),
        }
    }
    Ok(())
}

fn exec(c: &CloseCase, env: &Env) -> Outcome {
    let mut out = Outcome::pass();
    if c.keys.is_empty() || c.cycles.is_empty() {
        return out;
    }
    let dir = env.fresh_dir("store");
    let keys: Vec<Vec<u8>> = c.keys.iter().map(key_bytes).collect();
    let cfg = StoreCfg {
        max_file_size: c.max_file_size,
        readers_cache: 4,
        concurrency: 2,
        frag: 0.3,
        dead_bytes: 200,
        small_file: u64::MAX,
        sync_always: false,
        sync_interval_ms: 0,
    };
    let merge_extra = serde_json::json!({
        "policy": if c.policy_always { "always" } else { "never" },
        "check_interval_ms": c.check_interval_ms.max(1),
        "check_jitter": c.jitter_pct as f64 / 100.0,
        "triggers": { "fragmentation": 0.2, "dead_bytes": 100 },
    });
    let sync = match c.sync {
        0 => serde_json::json!("none"),
        1 => serde_json::json!("always"),
        n => serde_json::json!({ "interval_ms": n }),
    };
    // one warm-up open/close: the first runtime of a process creates process-wide state once
    // (tokio's signal pipe: two descriptors), which is not an accumulation
    {
        let wdir = env.fresh_dir("warmup");
        let t = thread_count();
        if let Ok(Ok(kv)) = catch(|| config_json(&cfg, &wdir, Some(merge_extra.clone()), Some(sync.clone())).open()) {
            drop(kv);
        }
        wait_until(Duration::from_secs(5), || thread_count() <= t);
        let _ = std::fs::remove_dir_all(&wdir);
    }
    let base_threads = thread_count();
    let base_fds = fd_count();
    let far_timer = c.check_interval_ms >= 60_000;
    let mut model = Model::new();
    let mut fail: Option<(String, String)> = None;
    // stores opened "at once" whose predecessor's worker may still be alive
    let mut pending_old_handles: Vec<Handle> = Vec::new();
    let mut all_post_kinds = false;

    let mut kv = match catch(|| config_json(&cfg, &dir, Some(merge_extra.clone()), Some(sync.clone())).open()) {
        Ok(Ok(kv)) => Some(kv),
        Ok(Err(e)) => return Outcome::failed("open-failed", e.to_string()),
        Err(p) => return Outcome::failed("open-panicked", p),
    };
    'cycles: for (ci, cy) in c.cycles.iter().enumerate() {
        let store = kv.take().expect("store open");
        let h = store.get_handle();
        // the reopened store reads as the model
        for k in &keys {
            match h.get(Bytes::from(k.clone())) {
                Ok(v) => {
                    if v.as_ref().map(|b| b.as_ref()) != model.get(k).map(|v| v.as_slice()) {
                        fail = Some((
                            "reopened-store-differs".into(),
                            format!("cycle {}: after reopening, key {:?} reads {:?} bytes but the model says {:?}", ci, Bytes::copy_from_slice(&k[..k.len().min(12)]), v.map(|b| b.len()), model.get(k).map(|v| v.len())),
                        ));
                        break 'cycles;
                    }
                }
                Err(e) => {
                    fail = Some(("get-error".into(), format!("cycle {}: get failed: {}", ci, e)));
                    break 'cycles;
                }
            }
        }
        for (i, (kind, k, vs)) in cy.prefix.iter().enumerate() {
            let key = keys[pick(*k, keys.len())].clone();
            let r = if *kind == 0 {
                let v = val_bytes(vs, (ci * 100 + i) as u64);
                model.insert(key.clone(), v.clone());
                h.set(Bytes::from(key), Bytes::from(v)).map(|_| ())
            } else {
                model.remove(&key);
                h.del(Bytes::from(key)).map(|_| ())
            };
            if let Err(e) = r {
                fail = Some(("op-error".into(), format!("cycle {}: op before the drop failed: {}", ci, e)));
                break 'cycles;
            }
        }
        let mut handles: Vec<Handle> = vec![h];
        for _ in 0..cy.clones {
            handles.push(handles[0].clone());
        }
        if cy.failed_merge_before_drop && !c.policy_always {
            // (only without timer-driven merges, which would consume the armed fault)
            crate::shim::register(&env.scratch);
            crate::shim::inject_arm_hint_create(0, libc::ENOSPC);
            let hh = handles[0].clone();
            let r = catch(move || hh.verif_merge());
            let fired = crate::shim::inject_disarm();
            match (r, fired) {
                (Ok(Err(_)), Some(_)) => out.label("merge-failed-half-way-before-the-drop"),
                (Ok(Ok(())), None) => {}
                (Ok(Ok(())), Some(_)) => {
                    fail = Some(("fault-swallowed".into(), format!("cycle {}: a merge pass succeeded although creating its hint file failed", ci)));
                    break;
                }
                (Err(p), _) => {
                    fail = Some(("merge-panicked".into(), format!("cycle {}: {}", ci, p)));
                    break;
                }
                (Ok(Err(e)), None) => {
                    fail = Some(("merge-error".into(), format!("cycle {}: merge failed without a fault: {}", ci, e)));
                    break;
                }
            }
        }
        if cy.drop_delay_us > 0 {
            std::thread::sleep(Duration::from_micros(cy.drop_delay_us as u64));
        }
        // "about to merge": hold the worker right after its merge timer fired, drop there
        let mut held_about_to_merge = false;
        let gate = std::sync::Arc::new((std::sync::Mutex::new((false, false)), std::sync::Condvar::new())); // (arrived, released)
        if cy.drop_when_about_to_merge && c.policy_always && c.check_interval_ms <= 200 {
            let g2 = gate.clone();
            bitcask::storage::bitcask::verif_set_schedule_hook(Some(std::sync::Arc::new(move |name: &'static str| {
                if name != "merge-timer-fired" {
                    return;
                }
                let (m, cv) = &*g2;
                let mut st = m.lock().unwrap();
                if st.0 {
                    return; // only the first arrival is held
                }
                st.0 = true;
                cv.notify_all();
                let t0 = Instant::now();
                while !st.1 && t0.elapsed() < Duration::from_secs(5) {
                    st = cv.wait_timeout(st, Duration::from_millis(50)).unwrap().0;
                }
            })));
            // wait for the worker to arrive (its timer is at most 200 ms * 2 away)
            let (m, cv) = &*gate;
            let mut st = m.lock().unwrap();
            let t0 = Instant::now();
            while !st.0 && t0.elapsed() < Duration::from_millis(c.check_interval_ms * 2 + 300) {
                st = cv.wait_timeout(st, Duration::from_millis(10)).unwrap().0;
            }
            held_about_to_merge = st.0;
        }
        let fp_at_drop = dir_fingerprint(&dir);
        let names_at_drop: Vec<String> = fp_at_drop.keys().cloned().collect();
        // the worker(s) of the store that is about to be dropped, by thread id (a worker that has
        // been running for a whole cycle certainly carries its name by now)
        let old_workers = crate::store::tids_named("bitcask-background-tasks");
        drop(store);
        if cy.drop_when_about_to_merge && c.policy_always && c.check_interval_ms <= 200 {
            // let the worker go on: it must notice that the store is closed and not merge
            let (m, cv) = &*gate;
            m.lock().unwrap().1 = true;
            cv.notify_all();
            bitcask::storage::bitcask::verif_set_schedule_hook(None);
            if held_about_to_merge {
                out.label("dropped-while-worker-was-about-to-merge");
            }
        }
        // (1) every operation through any remaining handle fails with 'closed'
        if let Err(f) = post_ops(&handles, &keys, &cy.post, ci as u64) {
            out.fatal = f.0 == "post-drop-op-hung";
            fail = Some((f.0, format!("cycle {}: {}", ci, f.1)));
            break;
        }
        let kinds: std::collections::BTreeSet<u8> = cy.post.iter().map(|(k, _)| k % 4).collect();
        if kinds.contains(&0) && kinds.contains(&1) && kinds.contains(&2) && far_timer {
            all_post_kinds = true;
        }
        // reopening at once is asserted where no merge can be in flight (policy never, or the
        // timer is far away); otherwise the old worker is awaited first
        let at_once = cy.reopen_at_once && (!c.policy_always || far_timer) && ci + 1 < c.cycles.len();
        if at_once {
            out.label("reopened-before-worker-exit");
            match catch(|| config_json(&cfg, &dir, Some(merge_extra.clone()), Some(sync.clone())).open()) {
                Ok(Ok(s)) => kv = Some(s),
                Ok(Err(e)) => {
                    fail = Some(("reopen-failed".into(), format!("cycle {}: the directory could not be opened again at once: {}", ci, e)));
                    break;
                }
                Err(p) => {
                    fail = Some(("reopen-panicked".into(), format!("cycle {}: {}", ci, p)));
                    break;
                }
            }
        }
        // (2) the worker exits promptly, even if its timer is an hour away
        // (when the next store was opened at once its own worker and that worker's blocking
        // threads are alive too, so the old worker is followed by thread id, not by counting)
        let gone = wait_until(Duration::from_secs(5), || {
            old_workers.iter().all(|t| !crate::store::tid_alive(*t)) && (at_once || thread_count() <= base_threads)
        });
        if !gone {
            fail = Some((
                "worker-did-not-exit".into(),
                format!(
                    "cycle {}: 5 s after the store was dropped its background worker is still alive (check interval {} ms, policy {}, sync {}; {} threads, baseline {})",
                    ci,
                    c.check_interval_ms,
                    if c.policy_always { "always" } else { "never" },
                    c.sync,
                    thread_count(),
                    base_threads
                ),
            ));
            out.fatal = true;
            break;
        }
        if far_timer {
            out.label("worker-exit-with-timer-far-away");
        }
        // (3) no further change on disk by handle operations (checked once the worker is gone)
        if !at_once {
            let before = dir_fingerprint(&dir);
            // without timer-driven merges nothing at all may have changed since the drop, the
            // first round of post-drop operations included; the same holds when the worker was
            // held right after its timer fired: no merge was in flight, none may start later
            if (!c.policy_always || held_about_to_merge) && before != fp_at_drop {
                let new: Vec<&String> = before.keys().filter(|k| !fp_at_drop.contains_key(*k)).collect();
                fail = Some((
                    "post-drop-op-changed-disk".into(),
                    format!(
                        "cycle {}: the directory changed after the store object was dropped ({} -> {} files; new: {:?}){}",
                        ci,
                        fp_at_drop.len(),
                        before.len(),
                        new,
                        if held_about_to_merge {
                            "; the worker was held right after its merge timer fired, so no merge was in flight at the drop: a merge pass ran on the closed store"
                        } else {
                            "; no timer-driven merge exists in this configuration: an operation through a remaining handle changed the disk"
                        }
                    ),
                ));
                break;
            }
            let merge_in_flight = before.keys().cloned().collect::<Vec<_>>() != names_at_drop;
            if merge_in_flight {
                out.label("merge-was-in-flight-at-drop");
            }
            if let Err(f) = post_ops(&handles, &keys, &cy.post, 1000 + ci as u64) {
                out.fatal = f.0 == "post-drop-op-hung";
                fail = Some((f.0, format!("cycle {}: {}", ci, f.1)));
                break;
            }
            let after = dir_fingerprint(&dir);
            if before != after {
                fail = Some((
                    "post-drop-op-changed-disk".into(),
                    format!("cycle {}: operations through handles of a dropped store changed the directory ({} -> {} files)", ci, before.len(), after.len()),
                ));
                break;
            }
        }
        pending_old_handles.extend(handles);
        if pending_old_handles.len() > 12 {
            pending_old_handles.drain(..6);
        }
        if !at_once && ci + 1 < c.cycles.len() {
            match catch(|| config_json(&cfg, &dir, Some(merge_extra.clone()), Some(sync.clone())).open()) {
                Ok(Ok(s)) => kv = Some(s),
                Ok(Err(e)) => {
                    fail = Some(("reopen-failed".into(), format!("cycle {}: reopen failed: {}", ci, e)));
                    break;
                }
                Err(p) => {
                    fail = Some(("reopen-panicked".into(), format!("cycle {}: {}", ci, p)));
                    break;
                }
            }
        }
    }
    drop(kv);
    drop(pending_old_handles);
    if fail.is_none() {
        // (4) no accumulated threads or open files
        let ok = wait_until(Duration::from_secs(5), || thread_count() <= base_threads && fd_count() <= base_fds);
        if !ok {
            fail = Some((
                "leak".into(),
                format!(
                    "after {} open/close cycles and dropping every handle: {} threads (baseline {}), {} open files (baseline {})",
                    c.cycles.len(),
                    thread_count(),
                    base_threads,
                    fd_count(),
                    base_fds
                ),
            ));
            out.fatal = thread_count() > base_threads;
        }
    } else if !out.fatal {
        wait_until(Duration::from_secs(5), || thread_count() <= base_threads);
    }
    out.nontrivial = all_post_kinds;
    out.count("open-close-cycles", c.cycles.len() as u64);
    if c.policy_always {
        out.label("policy-always");
    }
    match c.sync {
        0 => out.label("sync-none"),
        1 => out.label("sync-always"),
        _ => out.label("sync-interval"),
    }
    if let Some((sig, msg)) = fail {
        out.set_fail(sig, msg);
    }
    let _ = std::fs::remove_dir_all(&dir);
    out
}

pub fn prop() -> Prop<CloseCase> {
    Prop {
        id: "C17",
        level: "exploration",
        rule: "Cases: a configuration (merge policy always/never with triggers that the history exceeds, check interval 1 ms .. 1 h, jitter 0-1, sync none/always/interval 5-100 ms, small max_file_size) and 1-8 (30 thorough) open/close cycles; each cycle runs generated sets/deletes, takes 0-3 handle clones, in a quarter of the cycles (policy never) first runs one merge pass that fails half-way through an injected transient ENOSPC, drops the store object after a generated delay (0-30 ms, so the worker is sleeping, merging or syncing) or - through the `verif` schedule point in the background task - exactly when the worker's merge timer has fired and the merge has not started (about to merge), then applies generated set/get/del/merge through the remaining handles. Oracles: every such op returns Error::Closed; the worker thread disappears (thread count back to baseline and no thread named bitcask-background-tasks) within 5 s even with a timer an hour away; once it is gone a fingerprint of the directory (names, sizes, content hashes) is identical before and after another round of post-drop ops; the directory reopens (at once, before the old worker has exited, where no merge can be in flight) and reads as the model; after all cycles and dropping all handles, thread and open-file counts equal the baseline. Non-trivial: a cycle with set, get and del after the drop and a timer >= 60 s away; distinct = distinct hash of the case.",
        assumptions: &[
            "reopening at once is asserted only where no merge can be in flight at the drop (policy never, or the timer far away): the property lists sleeping, about to merge and syncing as the drop moments; otherwise the old worker is awaited before the reopen",
            "5 s bounds for thread exit; the fd/thread baseline is taken in the same process right before the case",
        ],
        needs_shim: true,
        budget: |t| t.pick(4800, 60000),
        shards: |_| 16,
        strategy,
        exec,
        max_shrink_iters: 200,
        replay_repeats: 5,
        watchdog_s: |t| t.pick(900, 7200),
    }
}
