//! C06 — over the network SET/GET/DEL answer exactly as the map model, in order.

use std::{collections::BTreeMap, time::Duration};

use bitcask::storage::KeyValueStorage;
use bytes::Bytes;
use proptest::prelude::*;
use serde::{Deserialize, Serialize};

use crate::{
    engine::{Env, Outcome, Prop, Tier},
    gen::{val_bytes, val_strategy, StoreCfg, ValSizes, ValSpec},
    netfx::{probe, RawClient, ServerFx},
    props::c08::segments,
    resp::{command, encode, F},
};

#[derive(Clone, Debug, Serialize, Deserialize)]
pub enum Req {
    Set(u8, ValSpec),
    Get(u8),
    Del(Vec<u8>),
}

#[derive(Clone, Debug, Serialize, Deserialize)]
pub struct NetCase {
    pub max_file_size: u64,
    pub keys: Vec<String>,
    pub reqs: Vec<Req>,
    pub seg_mode: u8,
    pub cuts: Vec<u16>,
    pub gap_us: u16,
    /// pipelining depth: send this many requests before reading their replies
    pub depth: u8,
    /// also run the request list through the crate's own client
    pub use_client: bool,
    /// late reader: after the list, SET one value of this size and pipeline this many GETs of it
    /// before reading any reply (count, value length); 0 = off
    #[serde(default)]
    pub late_reader: (u8, u32),
    /// after every segment wait for the replies to all requests that have been sent completely
    /// (so a reply is awaited while the first bytes of the next request are already out)
    #[serde(default)]
    pub sync_each_segment: bool,
}

pub fn net_key_strategy() -> BoxedStrategy<String> {
    prop_oneof![
        1 => Just(String::new()),
        4 => "[a-z]{1,8}",
        2 => "\\PC{1,6}",
        2 => proptest::collection::vec(prop_oneof![Just('\r'), Just('\n'), Just('\0'), Just('k'), Just('é'), Just('$'), Just('*')], 1..6).prop_map(|v| v.into_iter().collect()),
        1 => "[a-z]{60,200}",
    ]
    .boxed()
}

pub fn pick_idx(k: u8, n: usize) -> usize {
    crate::gen::pick(k, n)
}

fn strategy(tier: Tier) -> BoxedStrategy<NetCase> {
    let sizes = tier.pick(ValSizes::Mixed, ValSizes::Huge);
    let maxreq = tier.pick(30usize, 60usize);
    let req = prop_oneof![
        20 => (any::<u8>(), val_strategy(sizes)).prop_map(|(k, v)| Req::Set(k, v)),
        4 => (any::<u8>(), (60000u32..70000, any::<u8>())).prop_map(|(k, (len, seed))| Req::Set(k, ValSpec { len, seed })),
        // now and then a value around 512 KiB or 1 MiB (no generated size comes near them otherwise)
        1 => (any::<u8>(), (prop_oneof![524_200u32..524_400, 524_400u32..600_000, 1_048_500u32..1_048_700], any::<u8>())).prop_map(|(k, (len, seed))| Req::Set(k, ValSpec { len, seed })),
        20 => any::<u8>().prop_map(Req::Get),
        16 => proptest::collection::vec(any::<u8>(), 1..5).prop_map(Req::Del),
    ];
    (
        prop_oneof![Just(0u64), 100u64..2000, Just(2u64 << 30)],
        proptest::collection::vec(net_key_strategy(), 2..=6),
        proptest::collection::vec(req, 1..=maxreq),
        0u8..4,
        proptest::collection::vec(any::<u16>(), 0..10),
        prop_oneof![Just(0u16), 1u16..300],
        1u8..=30,
        any::<bool>(),
        prop_oneof![3 => Just((0u8, 0u32)), 1 => (40u8..140, prop_oneof![60_000u32..70_000, 8_192u32..9_000, 200_000u32..300_000])],
        prop_oneof![2 => Just(false), 1 => Just(true)],
    )
        .prop_map(|(max_file_size, keys, reqs, seg_mode, cuts, gap_us, depth, use_client, late_reader, sync_each_segment)| NetCase {
            max_file_size,
            keys,
            reqs,
            seg_mode,
            cuts,
            gap_us,
            depth,
            use_client,
            late_reader,
            sync_each_segment,
        })
        .boxed()
}

pub fn net_store_cfg(max_file_size: u64) -> StoreCfg {
    StoreCfg {
        max_file_size,
        readers_cache: 8,
        concurrency: 4,
        frag: 0.5,
        dead_bytes: u64::MAX,
        small_file: 0,
        sync_always: false,
        sync_interval_ms: 0,
    }
}

/// Request bytes and the model's reply for each request (model is updated).
pub fn request_and_reply(req: &Req, salt: u64, keys: &[String], model: &mut BTreeMap<Vec<u8>, Vec<u8>>) -> (Vec<u8>, F) {
    let n = keys.len();
    match req {
        Req::Set(k, vs) => {
            let key = keys[pick_idx(*k, n)].as_bytes().to_vec();
            let val = val_bytes(vs, salt);
            let b = command(&[b"SET", &key, &val]);
            model.insert(key, val);
            (b, F::Simple("OK".into()))
        }
        Req::Get(k) => {
            let key = keys[pick_idx(*k, n)].as_bytes().to_vec();
            let b = command(&[b"GET", &key]);
            let r = match model.get(&key) {
                Some(v) => F::Bulk(v.clone()),
                None => F::Null,
            };
            (b, r)
        }
        Req::Del(ks) => {
            let names: Vec<Vec<u8>> = ks.iter().map(|k| keys[pick_idx(*k, n)].as_bytes().to_vec()).collect();
            let mut parts: Vec<&[u8]> = vec![b"DEL"];
            for nm in &names {
                parts.push(nm);
            }
            let b = command(&parts);
            // each key counted as it is deleted in turn
            let mut cnt = 0i64;
            for nm in &names {
                if model.remove(nm).is_some() {
                    cnt += 1;
                }
            }
            (b, F::Int(cnt))
        }
    }
}

fn exec(c: &NetCase, env: &Env) -> Outcome {
    let mut out = Outcome::pass();
    if c.keys.is_empty() || c.reqs.is_empty() {
        return out;
    }
    let dir = env.fresh_dir("netstore");
    let srv = match ServerFx::start(&dir, &net_store_cfg(c.max_file_size), 8, 4) {
        Ok(s) => s,
        Err(e) => {
            out.inconclusive = Some(e);
            return out;
        }
    };
    let addr = srv.addr();
    let mut model: BTreeMap<Vec<u8>, Vec<u8>> = BTreeMap::new();
    let res = run_raw(c, &addr, &mut model, &mut out);
    let res = res.and_then(|_| run_late_reader(c, &addr, &mut model, &mut out));
    let mut res = res.and_then(|_| if c.use_client { run_client(c, &addr, &mut model) } else { Ok(()) });
    if res.is_ok() {
        // the store read through a Handle equals the model
        for k in &c.keys {
            let got = srv.handle.get(Bytes::from(k.as_bytes().to_vec())).map(|v| v.map(|b| b.to_vec()));
            match got {
                Ok(v) => {
                    if v.as_ref() != model.get(k.as_bytes()) {
                        res = Err((
                            "store-differs-from-model".into(),
                            format!("after the run key {:?} holds {:?} bytes in the store, the model says {:?}", k, v.map(|v| v.len()), model.get(k.as_bytes()).map(|v| v.len())),
                        ));
                        break;
                    }
                }
                Err(e) => {
                    res = Err(("store-error".into(), format!("handle get failed: {}", e)));
                    break;
                }
            }
        }
    }
    if let Err((sig, msg)) = res {
        if sig == "timeout" {
            // a missing reply counts only if the server still answers a fresh connection promptly
            match probe(&addr, b"probe", Duration::from_secs(5)) {
                Ok(_) => out.set_fail("reply-missing", msg),
                Err(e) => out.inconclusive = Some(format!("{}; probe also failed: {}", msg, e)),
            }
        } else {
            out.set_fail(sig, msg);
        }
    }
    if !srv.stop(Duration::from_secs(10)) {
        out.inconclusive.get_or_insert("server did not stop within 10 s".into());
    }
    let _ = std::fs::remove_dir_all(&dir);
    out
}

fn run_raw(c: &NetCase, addr: &str, model: &mut BTreeMap<Vec<u8>, Vec<u8>>, out: &mut Outcome) -> Result<(), (String, String)> {
    let mut cl = RawClient::connect(addr).map_err(|e| ("connect-failed".to_string(), e))?;
    let depth = (c.depth as usize).max(1);
    let mut expected_stream: Vec<u8> = Vec::new();
    let mut split_request = false;
    let mut binary_value = false;
    let mut multi_del = false;
    let mut i = 0;
    while i < c.reqs.len() {
        let batch = &c.reqs[i..(i + depth).min(c.reqs.len())];
        let mut bytes = Vec::new();
        let mut replies = Vec::new();
        let mut ends = Vec::new();
        for (j, r) in batch.iter().enumerate() {
            let (b, rep) = request_and_reply(r, (i + j) as u64, &c.keys, model);
            bytes.extend_from_slice(&b);
            ends.push(bytes.len());
            if let Req::Set(_, _) = r {
                if b.iter().any(|x| *x == 0 || *x == b'\r' || *x == b'\n') {
                    binary_value = true;
                }
            }
            if let Req::Del(ks) = r {
                if ks.len() >= 2 {
                    multi_del = true;
                }
            }
            replies.push(rep);
        }
        let segs = segments(&bytes, c.seg_mode, &c.cuts);
        let mut acc = 0;
        for s in &segs[..segs.len() - 1] {
            acc += s.len();
            if !ends.contains(&acc) {
                split_request = true;
            }
        }
        let mut got_early: Vec<F> = Vec::new();
        if c.sync_each_segment && segs.len() <= 400 {
            // after each segment, the replies to every completely sent request must arrive even
            // though the first bytes of the next request may already be on the wire
            let mut sent = 0usize;
            for sgm in &segs {
                cl.send(sgm).map_err(|e| ("send-failed".to_string(), e))?;
                sent += sgm.len();
                let complete = ends.iter().filter(|e| **e <= sent).count();
                if complete > got_early.len() {
                    let more = cl.read_replies(complete - got_early.len(), Duration::from_secs(10)).map_err(|e| {
                        if e.starts_with("timeout") {
                            ("timeout".to_string(), format!("requests #{}..: {} request(s) were sent completely (followed by {} byte(s) of the next one) but: {}", i, complete, sent - ends[complete - 1], e))
                        } else {
                            ("reply-stream-broken".to_string(), format!("requests #{}..: {}", i, e))
                        }
                    })?;
                    got_early.extend(more);
                }
            }
            out.label("reply-awaited-after-every-segment");
        } else {
            cl.send_segments(&segs, c.gap_us as u64).map_err(|e| ("send-failed".to_string(), e))?;
        }
        let need = batch.len() - got_early.len();
        let got = cl.read_replies(need, Duration::from_secs(10)).map(|rest| { let mut v = got_early.clone(); v.extend(rest); v }).map_err(|e| {
            if e.starts_with("timeout") {
                ("timeout".to_string(), format!("requests #{}..#{}: {}", i, i + batch.len(), e))
            } else {
                ("reply-stream-broken".to_string(), format!("requests #{}..#{}: {}", i, i + batch.len(), e))
            }
        })?;
        for (j, (g, w)) in got.iter().zip(replies.iter()).enumerate() {
            if g != w {
                return Err((
                    "wrong-reply".into(),
                    format!("request #{} {:?}: reply {} but the model says {}", i + j, short_req(&batch[j]), short_f(g), short_f(w)),
                ));
            }
        }
        for r in &replies {
            encode(r, &mut expected_stream);
        }
        i += batch.len();
    }
    // nothing but the expected replies, byte for byte
    cl.pump(Duration::from_millis(2));
    if cl.rx != expected_stream {
        let at = cl.rx.iter().zip(expected_stream.iter()).position(|(a, b)| a != b).unwrap_or(cl.rx.len().min(expected_stream.len()));
        return Err((
            "reply-bytes-differ".into(),
            format!("received {} bytes, expected {}; first difference at offset {}", cl.rx.len(), expected_stream.len(), at),
        ));
    }
    cl.close();
    out.nontrivial = split_request && (depth >= 2 || binary_value) && multi_del;
    if split_request {
        out.label("request-split-across-segments");
    }
    if depth >= 2 {
        out.label("pipelined");
    }
    if binary_value {
        out.label("value-with-CR-LF-NUL");
    }
    if multi_del {
        out.label("multi-key-DEL");
    }
    out.label(format!("segmentation-mode-{}", c.seg_mode % 4));
    Ok(())
}

/// Deep pipelining with a client that reads late: the server's socket buffers fill up while it
/// writes large replies, so its writes are accepted only in part.
fn run_late_reader(c: &NetCase, addr: &str, model: &mut BTreeMap<Vec<u8>, Vec<u8>>, out: &mut Outcome) -> Result<(), (String, String)> {
    let (count, len) = c.late_reader;
    if count == 0 {
        return Ok(());
    }
    out.label("late-reader");
    let mut cl = RawClient::connect(addr).map_err(|e| ("connect-failed".to_string(), e))?;
    let key = b"late-reader-key".to_vec();
    let val = val_bytes(&ValSpec { len, seed: 7 }, 9999);
    cl.send(&command(&[b"SET", &key, &val])).map_err(|e| ("send-failed".to_string(), e))?;
    cl.read_replies(1, Duration::from_secs(10)).map_err(|e| ("timeout".to_string(), format!("late reader SET: {}", e)))?;
    model.insert(key.clone(), val.clone());
    let mut all = Vec::new();
    for _ in 0..count {
        all.extend_from_slice(&command(&[b"GET", &key]));
    }
    cl.send(&all).map_err(|e| ("send-failed".to_string(), e))?;
    // let the replies pile up unread
    std::thread::sleep(Duration::from_millis(30));
    let got = cl.read_replies(count as usize, Duration::from_secs(20)).map_err(|e| {
        if e.starts_with("timeout") {
            ("timeout".to_string(), format!("late reader: {} pipelined GETs of a {} byte value: {}", count, len, e))
        } else {
            ("reply-stream-broken".to_string(), format!("late reader: {} pipelined GETs of a {} byte value: {}", count, len, e))
        }
    })?;
    for (i, g) in got.iter().enumerate() {
        if *g != F::Bulk(val.clone()) {
            return Err((
                "wrong-reply".into(),
                format!("late reader: reply #{} of {} pipelined GETs of a {} byte value is {}", i, count, len, short_f(g)),
            ));
        }
    }
    cl.close();
    Ok(())
}

fn run_client(c: &NetCase, addr: &str, model: &mut BTreeMap<Vec<u8>, Vec<u8>>) -> Result<(), (String, String)> {
    let rt = tokio::runtime::Builder::new_current_thread().enable_all().build().unwrap();
    let keys = c.keys.clone();
    let reqs = c.reqs.clone();
    let addr = addr.to_string();
    let n = keys.len();
    rt.block_on(async move {
        let mut cl = tokio::time::timeout(Duration::from_secs(5), bitcask::net::Client::connect(addr))
            .await
            .map_err(|_| ("timeout".to_string(), "client connect timed out".to_string()))?
            .map_err(|e| ("connect-failed".to_string(), e.to_string()))?;
        for (i, r) in reqs.iter().enumerate() {
            let salt = 5000 + i as u64;
            let step = async {
                match r {
                    Req::Set(k, vs) => {
                        let key = keys[pick_idx(*k, n)].clone();
                        let val = val_bytes(vs, salt);
                        cl.set(key.clone(), Bytes::from(val.clone())).await.map_err(|e| ("client-error".to_string(), format!("request #{} SET: {}", i, e)))?;
                        model.insert(key.into_bytes(), val);
                    }
                    Req::Get(k) => {
                        let key = keys[pick_idx(*k, n)].clone();
                        let got = cl.get(key.clone()).await.map_err(|e| ("client-error".to_string(), format!("request #{} GET: {}", i, e)))?;
                        let want = model.get(key.as_bytes());
                        if got.as_ref().map(|b| b.as_ref()) != want.map(|v| v.as_slice()) {
                            return Err((
                                "wrong-reply".to_string(),
                                format!("client request #{} GET {:?}: got {:?} bytes, the model says {:?}", i, key, got.map(|b| b.len()), want.map(|v| v.len())),
                            ));
                        }
                    }
                    Req::Del(ks) => {
                        let names: Vec<String> = ks.iter().map(|k| keys[pick_idx(*k, n)].clone()).collect();
                        let got = cl.del(names.clone()).await.map_err(|e| ("client-error".to_string(), format!("request #{} DEL: {}", i, e)))?;
                        let mut cnt = 0;
                        for nm in &names {
                            if model.remove(nm.as_bytes()).is_some() {
                                cnt += 1;
                            }
                        }
                        if got != cnt {
                            return Err(("wrong-reply".to_string(), format!("client request #{} DEL {:?}: got {}, the model says {}", i, names, got, cnt)));
                        }
                    }
                }
                Ok(())
            };
            tokio::time::timeout(Duration::from_secs(10), step)
                .await
                .map_err(|_| ("timeout".to_string(), format!("client request #{} got no reply within 10 s", i)))??;
        }
        Ok(())
    })
}

fn short_req(r: &Req) -> String {
    match r {
        Req::Set(k, v) => format!("SET key#{} <{} bytes>", k, v.len),
        Req::Get(k) => format!("GET key#{}", k),
        Req::Del(ks) => format!("DEL keys#{:?}", ks),
    }
}

pub fn short_f(f: &F) -> String {
    match f {
        F::Bulk(b) if b.len() > 24 => format!("Bulk({} bytes, starts {:?})", b.len(), Bytes::copy_from_slice(&b[..16])),
        other => format!("{:?}", other),
    }
}

pub fn prop() -> Prop<NetCase> {
    Prop {
        id: "C06",
        level: "exploration",
        rule: "Cases: a request list of 1-30 commands (quick; 60 thorough) over SET/GET/DEL with repeated and absent keys, keys arbitrary UTF-8 (empty, multi-byte, containing CR/LF/NUL), values arbitrary bytes up to 70 KiB (1 MiB thorough) and, one request in sixty, around 512 KiB or 1 MiB, a segmentation plan for the request bytes (all at once / one byte per segment / generated cut points / cuts at and next to every CRLF) sent with TCP_NODELAY and a generated gap, a pipelining depth 1-30, and (a third of the cases) a mode that awaits, after every segment, the replies to all completely sent requests while the first bytes of the next request are already out. A fresh store and an in-process server per case; a raw socket client sends the bytes, then (a quarter of the cases) a late reader sets a 8-300 KB value and pipelines 40-139 GETs of it before reading anything, so that the server writes into full socket buffers, then (half of the cases) the crate's own net::Client runs the list again. Oracle: the received bytes equal, byte for byte, the concatenation of a reference encoder's encodings of the model's answers (+OK, bulk or $-1, :n with each key counted as it is deleted in turn), one reply per request in order, and afterwards the store read through a Handle equals the model. Non-trivial: at least one request split across segments and (pipelining depth >= 2 or a value containing CR, LF or NUL) and a multi-key DEL; distinct = distinct hash of the case.",
        assumptions: &[
            "only well-formed upper-case commands (the only ones the server accepts)",
            "TCP may coalesce segments; that affects sensitivity only (C08 controls chunking exactly)",
            "a reply missing after 10 s counts as a violation only if a probe on a fresh connection is answered",
        ],
        needs_shim: false,
        budget: |t| t.pick(1600, 30000),
        shards: |_| 16,
        strategy,
        exec,
        max_shrink_iters: 300,
        replay_repeats: 3,
        watchdog_s: |t| t.pick(900, 7200),
    }
}
