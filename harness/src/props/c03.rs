//! C03 — a process crash at any instant loses no acknowledged write and corrupts nothing.
//!
//! For every generated workload the complete set of crash points (every prefix of the recorded
//! mutating file-system calls) is enumerated.

use proptest::prelude::*;
use serde::{Deserialize, Serialize};

use crate::{
    engine::{hash64, Env, Outcome, Prop, Tier},
    gen::{frag_strategy, key_strategy, op_strategy, Hist, Op, OpWeights, StoreCfg, ValSizes},
    rec::{match_models, model_apply, mutating_calls, run_recorded, MCall, MemDir, OpApplier, OpRes},
    shim,
    store::Model,
};

#[derive(Clone, Debug, Serialize, Deserialize)]
pub struct CrashCase {
    pub hist: Hist,
    /// ops applied to every recovered store
    pub post: Vec<Op>,
}

pub fn workload_cfg(sync_always: bool) -> BoxedStrategy<StoreCfg> {
    (
        prop_oneof![
            1 => Just(0u64),
            5 => 40u64..300,
            3 => 300u64..1200,
            2 => 8000u64..20000,
            1 => Just(2u64 << 30),
        ],
        prop_oneof![Just(0usize), Just(1), Just(256)],
        prop_oneof![Just(0usize), Just(1), Just(2)],
        frag_strategy(),
    )
        .prop_map(move |(max_file_size, readers_cache, concurrency, frag)| StoreCfg {
            max_file_size,
            readers_cache,
            concurrency,
            frag,
            dead_bytes: 0,
            // every non-empty file is eligible: partial selection (D2) is C05's subject
            small_file: u64::MAX,
            sync_always,
            sync_interval_ms: 0,
        })
        .boxed()
}

/// Workloads under arbitrary merge thresholds (merges select arbitrary subsets of files).
pub fn workload_partial(tier: Tier, sync_always: bool, w: OpWeights, min_ops: usize, max_quick: usize, max_thorough: usize) -> BoxedStrategy<Hist> {
    (
        workload(tier, sync_always, w, min_ops, max_quick, max_thorough),
        crate::gen::dead_bytes_strategy(),
        crate::gen::small_file_strategy(),
    )
        .prop_map(|(mut h, dead_bytes, small_file)| {
            h.cfg.dead_bytes = dead_bytes;
            h.cfg.small_file = small_file;
            h
        })
        .boxed()
}

pub fn workload(tier: Tier, sync_always: bool, w: OpWeights, min_ops: usize, max_quick: usize, max_thorough: usize) -> BoxedStrategy<Hist> {
    let maxops = tier.pick(max_quick, max_thorough);
    // one workload in eight uses only values of 9-40 KB (several write calls per append, merges
    // that fill buffers larger than the 8 KiB default)
    let ops = prop_oneof![
        7 => proptest::collection::vec(op_strategy(w, ValSizes::Mixed), min_ops..=maxops),
        1 => proptest::collection::vec(op_strategy(w, ValSizes::Big), min_ops..=maxops),
    ];
    (
        workload_cfg(sync_always),
        proptest::collection::vec(key_strategy(false), 2..=5),
        ops,
    )
        .prop_map(|(cfg, keys, ops)| Hist { cfg, keys, ops })
        .boxed()
}

fn strategy(tier: Tier) -> BoxedStrategy<CrashCase> {
    let w = OpWeights {
        set: 10,
        get: 0,
        del: 4,
        merge: 3,
        reopen: 2,
    };
    (
        prop_oneof![3 => workload(tier, false, w, 3, 14, 40), 1 => workload_partial(tier, false, w, 3, 14, 40)],
        proptest::collection::vec(
            op_strategy(
                OpWeights {
                    set: 4,
                    get: 1,
                    del: 2,
                    merge: 1,
                    reopen: 0,
                },
                ValSizes::Small,
            ),
            0..=3,
        ),
    )
        .prop_map(|(hist, post)| CrashCase { hist, post })
        .boxed()
}

/// Classification of a crash point relative to the op it falls into.
pub fn classify_point(calls: &[crate::rec::MEntry], k: usize, hist: &Hist) -> Option<&'static str> {
    // strictly inside op X: call k-1 and call k both belong to X
    if k == 0 || k >= calls.len() {
        return None;
    }
    let (a, b) = (calls[k - 1].op?, calls[k].op?);
    if a != b {
        return None;
    }
    Some(match &hist.ops[a] {
        Op::Merge => {
            if matches!(calls[k].call, MCall::Unlink(_)) || matches!(calls[k - 1].call, MCall::Unlink(_)) {
                "inside-merge-cleanup"
            } else {
                "inside-merge-copy"
            }
        }
        Op::Set(..) | Op::Del(..) => {
            if matches!(calls[k].call, MCall::Create(_)) {
                "inside-rollover"
            } else {
                "inside-multi-call-append"
            }
        }
        Op::Reopen => "inside-reopen",
        Op::Get(_) => "inside-get",
    })
}

/// Check one materialised crash directory. `acked` = number of ops that had returned,
/// `inflight` = the op in flight (index) if any.
#[allow(clippy::too_many_arguments)]
pub fn check_crash_dir(
    case_hist: &Hist,
    post: &[Op],
    keys: &[Vec<u8>],
    models: &[Model],
    acked: usize,
    inflight: Option<usize>,
    files: &std::collections::BTreeMap<String, Vec<u8>>,
    dir: &std::path::Path,
    scratch: &std::path::Path,
    what: &str,
) -> Result<(), crate::engine::Failure> {
    use crate::store::fail;
    MemDir {
        files: files.clone(),
        ..MemDir::default()
    }
    .materialise(dir);

    let a = &models[acked];
    let b = inflight.map(|i| &models[i + 1]);
    let mut ap = OpApplier::new(case_hist, dir);
    // recovery 1, recorded (to enumerate crashes during recovery itself)
    shim::record_start();
    let opened = ap.open();
    let rlog = shim::record_stop();
    if let Err(e) = opened {
        let sig = if e.contains("panicked") { "recovery-panic" } else { "recovery-failed" };
        return Err(fail(sig, format!("{}: {}", what, e)));
    }
    let which = match_models(&ap, keys, a, b).map_err(|mut f| {
        f.msg = format!("{}: {}", what, f.msg);
        f
    })?;
    let mut model = if which == 0 { a.clone() } else { b.unwrap().clone() };
    let model0 = model.clone();
    // the first half of the post ops is applied to the store as recovered the FIRST time (what
    // it writes must survive the next restart), the second half after the second recovery
    let (post_first, post) = post.split_at(post.len() / 2);
    for (i, op) in post_first.iter().enumerate() {
        let opi = 500 + i;
        let got = ap.apply(opi, op);
        let want = model_apply(&mut model, keys, opi, op);
        if got != want {
            return Err(fail(
                "post-recovery-op-wrong",
                format!(
                    "{}: op {:?} on the recovered store returned {}, the model says {}",
                    what,
                    op,
                    crate::rec::trunc(&got),
                    crate::rec::trunc(&want)
                ),
            ));
        }
    }
    ap.close();
    // crash during recovery: every proper prefix of the recovery's own mutating calls
    let dname = dir.file_name().unwrap().to_string_lossy().to_string();
    let rcalls = mutating_calls(&rlog, &dname, false);
    for j in 1..rcalls.len() {
        let mut s = MemDir {
            files: files.clone(),
            ..MemDir::default()
        };
        for c in &rcalls[..j] {
            s.apply(&c.call);
        }
        let d2 = scratch.join("crash-in-recovery");
        s.materialise(&d2);
        let mut ap2 = OpApplier::new(case_hist, &d2);
        if let Err(e) = ap2.open() {
            return Err(fail("recovery-failed", format!("{} + crash after {} call(s) of recovery: {}", what, j, e)));
        }
        match_models(&ap2, keys, &model0, None).map_err(|mut f| {
            f.msg = format!("{} + crash after {} call(s) of recovery: {}", what, j, f.msg);
            f
        })?;
        ap2.close();
        let _ = std::fs::remove_dir_all(&d2);
    }
    // recovery 2 on what recovery 1 (and the first post ops) left behind
    if let Err(e) = ap.open() {
        return Err(fail("recovery-failed", format!("{}: second recovery: {}", what, e)));
    }
    match_models(&ap, keys, &model, None).map_err(|mut f| {
        f.msg = format!("{}: after a second recovery: {}", what, f.msg);
        f
    })?;
    // the recovered store must stay usable
    for (i, op) in post.iter().enumerate() {
        let opi = 1000 + i;
        let got = ap.apply(opi, op);
        let want = model_apply(&mut model, keys, opi, op);
        if got != want {
            return Err(fail(
                "post-recovery-op-wrong",
                format!(
                    "{}: op {:?} on the recovered store returned {}, the model says {}",
                    what,
                    op,
                    crate::rec::trunc(&got),
                    crate::rec::trunc(&want)
                ),
            ));
        }
    }
    if !post.is_empty() {
        match ap.apply(2000, &Op::Reopen) {
            OpRes::Ok => {}
            other => return Err(fail("recovery-failed", format!("{}: reopen after post ops: {}", what, crate::rec::trunc(&other)))),
        }
        match_models(&ap, keys, &model, None).map_err(|mut f| {
            f.msg = format!("{}: after post ops and reopen: {}", what, f.msg);
            f
        })?;
    }
    Ok(())
}

/// acked ops and the op in flight for the crash point before mutating call `k`.
pub fn acked_at(run: &crate::rec::RecRun, k: usize, nops_run: usize) -> (usize, Option<usize>) {
    let pos = if k < run.calls.len() { run.calls[k].log_idx } else { usize::MAX };
    let mut acked = 0;
    let mut inflight = None;
    for i in 0..nops_run {
        if run.op_end[i] < pos {
            acked = i + 1;
        } else if run.op_start[i] < pos {
            inflight = Some(i);
        }
    }
    (acked, inflight)
}

fn exec(c: &CrashCase, env: &Env) -> Outcome {
    let mut out = Outcome::pass();
    if c.hist.keys.is_empty() {
        return out;
    }
    let run = run_recorded(&c.hist, &env.scratch, "store", false);
    if let Some(f) = run.failure.clone() {
        out.fail = Some(f);
        return out;
    }
    let nops = run.results.len();
    if env.replay && std::env::var("VH_DEBUG").is_ok() {
        for (i, e) in run.calls.iter().enumerate() {
            eprintln!("call #{} op={:?} {}", i, e.op, e.call.describe());
        }
    }
    let crash_dir = env.scratch.join("crash");
    let mut md = MemDir::default();
    let mut evals = 0u64;
    for k in 0..=run.calls.len() {
        if k > 0 {
            md.apply(&run.calls[k - 1].call);
        }
        let (acked, inflight) = acked_at(&run, k, nops);
        let what = format!(
            "crash before mutating call #{} of {} ({}; {} op(s) acknowledged{})",
            k,
            run.calls.len(),
            run.calls.get(k).map(|e| e.call.describe()).unwrap_or_else(|| "end of workload".into()),
            acked,
            inflight.map(|i| format!(", op #{} {:?} in flight", i, short_op(&c.hist.ops[i]))).unwrap_or_default()
        );
        evals += 1;
        if let Some(cl) = classify_point(&run.calls, k, &c.hist) {
            out.nt_hashes.push(hash64(&k));
            out.labels.push(cl.to_string());
        }
        if let Err(f) = check_crash_dir(&c.hist, &c.post, &run.keys, &run.models, acked, inflight, &md.files, &crash_dir, &env.scratch, &what) {
            out.fail = Some(f);
            break;
        }
    }
    let _ = std::fs::remove_dir_all(&crash_dir);
    let _ = std::fs::remove_dir_all(env.scratch.join("store"));
    if c.hist.cfg.small_file != u64::MAX {
        out.labels.push("workload-with-arbitrary-merge-thresholds".into());
    }
    out.evals = evals;
    out.count("crash-points", evals);
    out.count("workloads", 1);
    out.labels.sort();
    out.labels.dedup();
    out
}

pub fn short_op(op: &Op) -> String {
    match op {
        Op::Set(k, v) => format!("Set(key#{}, {} bytes)", k, v.len),
        other => format!("{:?}", other),
    }
}

pub fn prop() -> Prop<CrashCase> {
    Prop {
        id: "C03",
        level: "fault_enumeration",
        rule: "Workloads (3-14 ops quick, up to 40 thorough, over set/del/merge/reopen; small max_file_size so rollovers and multi-file merges occur; a share of entries above the 8 KiB write buffer) are generated by proptest and run once under the LD_PRELOAD recorder. For each workload EVERY crash point is enumerated: for each k in 0..=N the directory holding exactly the first k recorded mutating calls (create, write with its bytes, unlink) is materialised and recovered; the recovered reads must equal the model after the acknowledged ops, or that plus the single op in flight, consistently over all keys; recovery is repeated (crash during/after recovery), then generated post ops and another reopen must still agree with the model. evaluations = crash states recovered. Non-trivial crash point: strictly inside a merge, a rollover or a multi-call append (calls k-1 and k belong to the same op); distinct = (workload hash, k).",
        assumptions: &[
            "a killed process leaves exactly the effects of a prefix of its system calls (the property's own kill model); no partial single call",
            "three quarters of the workloads use thresholds that make every non-empty file eligible, the rest arbitrary thresholds (merges of arbitrary subsets of files)",
            "workload is single threaded with merge policy never, so the recorded call order is the program order",
        ],
        needs_shim: true,
        budget: |t| t.pick(9600, 60000),
        shards: |_| 16,
        strategy,
        exec,
        max_shrink_iters: 3000,
        replay_repeats: 1,
        watchdog_s: |t| t.pick(900, 7200),
    }
}
