//! C12 — hint files are only an accelerator: recovery with or without them agrees.

use proptest::prelude::*;

use crate::{
    engine::{Env, Outcome, Prop, Tier},
    gen::{Hist, OpWeights},
    props::{c01::hist_labels, mergefam},
    store::{run_hist, Checks},
};

fn strategy(tier: Tier) -> BoxedStrategy<Hist> {
    mergefam::strategy(
        tier,
        OpWeights {
            set: 10,
            get: 0,
            del: 4,
            merge: 4,
            reopen: 2,
        },
        25,
    )
}

fn exec(h: &Hist, env: &Env) -> Outcome {
    let (f, st) = run_hist(
        h,
        &env.scratch,
        Checks {
            hint: true,
            ..Checks::default()
        },
    );
    let mut out = Outcome::pass();
    out.fail = f;
    out.nontrivial = st.hint_files_nonempty_at_close > 0 && st.post_merge_overwrites_of_merged_keys > 0;
    hist_labels(&mut out, h, &st);
    out.count("differential-recoveries", st.hint_diffs_checked as u64);
    out
}

pub fn prop() -> Prop<Hist> {
    Prop {
        id: "C12",
        level: "exploration",
        rule: "Cases are histories with merges under arbitrary thresholds (merge outputs roll over into several files because max_file_size is a few entries). At every reopen and at the end the closed directory is copied twice, all *.hint files are deleted from one copy, both copies are opened, and every pool key plus both index key sets must agree (differential; the map model is not consulted). Non-trivial: the closed directory held at least one non-empty hint file and at least one entry written after a merge overwrote or deleted a merged key; distinct = distinct hash of the whole case.",
        assumptions: &["hint files are produced only by merges run through the verif_merge hook"],
        needs_shim: false,
        budget: |t| t.pick(16000, 250000),
        shards: |_| 16,
        strategy,
        exec,
        max_shrink_iters: 6000,
        replay_repeats: 1,
        watchdog_s: |t| t.pick(600, 3600),
    }
}
