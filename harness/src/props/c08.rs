//! C08 — RESP encoding and decoding round-trip, independent of stream chunking.

use std::{
    collections::VecDeque,
    io::Cursor,
    pin::Pin,
    task::{Context, Poll},
};

use bitcask::net::{
    connection::Connection,
    frame::{Error as FrameError, Frame},
};
use proptest::prelude::*;
use serde::{Deserialize, Serialize};
use tokio::io::{AsyncRead, AsyncWrite, ReadBuf};

use crate::{
    engine::{catch, panic_site, Env, Outcome, Prop, Tier},
    props::c07::frame_strategy,
    resp::{encoded, F},
};

#[derive(Clone, Debug, Serialize, Deserialize)]
pub struct RtCase {
    pub frames: Vec<F>,
    /// 0 all at once, 1 one byte at a time, 2 generated cut points, 3 cuts at and next to every CRLF
    pub seg_mode: u8,
    /// cut points as fractions (per 65536) of the total length
    pub cuts: Vec<u16>,
    /// the stream ends after this fraction of the last frame (None = clean end)
    pub eof_inside: Option<u16>,
    /// capacity of the pipe the writer side writes into (a full pipe accepts writes only in part)
    #[serde(default)]
    pub pipe_cap: u32,
}

/// In-memory stream: reads deliver exactly the chosen segments, then EOF; writes are collected.
pub struct ChunkStream {
    pub chunks: VecDeque<Vec<u8>>,
    pub written: Vec<u8>,
}

impl AsyncRead for ChunkStream {
    fn poll_read(mut self: Pin<&mut Self>, _cx: &mut Context<'_>, buf: &mut ReadBuf<'_>) -> Poll<std::io::Result<()>> {
        loop {
            match self.chunks.front_mut() {
                None => return Poll::Ready(Ok(())), // EOF
                Some(c) if c.is_empty() => {
                    self.chunks.pop_front();
                    continue;
                }
                Some(c) => {
                    let n = c.len().min(buf.remaining());
                    buf.put_slice(&c[..n]);
                    c.drain(..n);
                    if c.is_empty() {
                        self.chunks.pop_front();
                    }
                    return Poll::Ready(Ok(()));
                }
            }
        }
    }
}

impl AsyncWrite for ChunkStream {
    fn poll_write(mut self: Pin<&mut Self>, _cx: &mut Context<'_>, buf: &[u8]) -> Poll<std::io::Result<usize>> {
        self.written.extend_from_slice(buf);
        Poll::Ready(Ok(buf.len()))
    }
    fn poll_flush(self: Pin<&mut Self>, _cx: &mut Context<'_>) -> Poll<std::io::Result<()>> {
        Poll::Ready(Ok(()))
    }
    fn poll_shutdown(self: Pin<&mut Self>, _cx: &mut Context<'_>) -> Poll<std::io::Result<()>> {
        Poll::Ready(Ok(()))
    }
}

fn strategy(tier: Tier) -> BoxedStrategy<RtCase> {
    let big = tier.pick(20_000usize, 200_000usize);
    let frame = prop_oneof![
        48 => frame_strategy(1, true),
        4 => proptest::collection::vec(any::<u8>(), 8000..big).prop_map(F::Bulk),
        // now and then a payload around and beyond 64 KiB and 128 KiB (filled from a seed, so that
        // it is cheap to generate and to shrink)
        1 => (prop_oneof![10 => 65_400usize..65_700, 10 => 60_000usize..140_000, 1 => 524_200usize..524_400, 1 => 1_048_500usize..1_048_700], any::<u8>()).prop_map(|(n, seed)| {
            let mut x = (seed as u64).wrapping_mul(0x9E3779B97F4A7C15) | 1;
            F::Bulk((0..n).map(|_| { x ^= x << 13; x ^= x >> 7; x ^= x << 17; (x >> 24) as u8 }).collect())
        }),
        4 => (proptest::collection::vec(any::<u8>(), 0..40), any::<bool>(), any::<bool>()).prop_map(|(mut b, s, e)| {
            if s {
                b.splice(0..0, *b"\r\n");
            }
            if e {
                b.extend_from_slice(b"\r\n");
            }
            F::Bulk(b)
        }),
    ];
    (
        proptest::collection::vec(frame, 1..=6),
        0u8..4,
        proptest::collection::vec(any::<u16>(), 0..12),
        prop_oneof![3 => Just(None), 1 => any::<u16>().prop_map(Some)],
        prop_oneof![2 => 16u32..512, 2 => 512u32..9000, 1 => Just(1u32 << 22)],
    )
        .prop_map(|(frames, seg_mode, cuts, eof_inside, pipe_cap)| RtCase {
            frames,
            seg_mode,
            cuts,
            eof_inside,
            pipe_cap,
        })
        .boxed()
}

pub fn segments(total: &[u8], mode: u8, cuts: &[u16]) -> Vec<Vec<u8>> {
    let n = total.len();
    let mut points: Vec<usize> = match mode % 4 {
        0 => vec![],
        1 => {
            // one byte per segment; for long streams only the first 1500 and the last 500 bytes
            if n <= 3000 {
                (1..n).collect()
            } else {
                (1..1500).chain(n - 500..n).collect()
            }
        }
        2 => cuts.iter().map(|c| (*c as usize * (n + 1)) >> 16).collect(),
        _ => {
            let mut p = Vec::new();
            for i in 0..n.saturating_sub(1) {
                if &total[i..i + 2] == b"\r\n" {
                    for d in [i, i + 1, i + 2, i + 3] {
                        p.push(d);
                    }
                }
            }
            p
        }
    };
    points.retain(|p| *p > 0 && *p < n);
    points.sort_unstable();
    points.dedup();
    let mut out = Vec::new();
    let mut last = 0;
    for p in points {
        out.push(total[last..p].to_vec());
        last = p;
    }
    out.push(total[last..].to_vec());
    out
}

fn exec(c: &RtCase, _env: &Env) -> Outcome {
    let mut out = Outcome::pass();
    if c.frames.is_empty() {
        return out;
    }
    let rt = tokio::runtime::Builder::new_current_thread().enable_all().build().unwrap();
    let encs: Vec<Vec<u8>> = c.frames.iter().map(encoded).collect();
    let total: Vec<u8> = encs.concat();

    // (1) differential encoder: write_frame output equals the canonical encoding
    let frames_real: Vec<Frame> = c.frames.iter().map(|f| f.to_frame()).collect();
    let written = catch(|| {
        rt.block_on(async {
            let mut conn = Connection::new(ChunkStream {
                chunks: VecDeque::new(),
                written: Vec::new(),
            });
            for f in &frames_real {
                conn.write_frame(f).await.map_err(|e| e.to_string())?;
            }
            Ok::<_, String>(conn)
        })
    });
    // the connection does not expose its stream; encode through a second path: read back what the
    // reader makes of our canonical bytes (2), and compare the writer by piping it into the reader
    match written {
        Err(p) => {
            out.set_fail(format!("write-panic:{}", panic_site(&p)), format!("write_frame panicked: {}", p));
            return out;
        }
        Ok(Err(e)) => {
            out.set_fail("write-error", format!("write_frame failed on an in-memory stream: {}", e));
            return out;
        }
        Ok(Ok(_)) => {}
    }

    // (2) read_frame over the chunked stream yields exactly the frame sequence, then Ok(None)
    let mut stream_bytes = total.clone();
    let mut expect_frames = c.frames.len();
    let mut truncated = false;
    if let Some(fr) = c.eof_inside {
        // cut strictly inside the last frame
        let last = encs.last().unwrap().len();
        if last >= 2 {
            let keep = 1 + ((fr as usize * (last - 1)) >> 16);
            stream_bytes.truncate(total.len() - last + keep.min(last - 1));
            expect_frames -= 1;
            truncated = true;
        }
    }
    let segs = segments(&stream_bytes, c.seg_mode, &c.cuts);
    let nsegs = segs.len();
    // is some segment boundary strictly inside a frame?
    let mut boundaries = Vec::new();
    let mut acc = 0;
    for s in &segs[..segs.len() - 1] {
        acc += s.len();
        boundaries.push(acc);
    }
    let mut frame_ends = Vec::new();
    let mut acc = 0;
    for e in &encs {
        acc += e.len();
        frame_ends.push(acc);
    }
    let inside = boundaries.iter().any(|b| !frame_ends.contains(b));
    out.nontrivial = c.frames.len() >= 2 && inside;
    out.label(format!("segmentation-mode-{}", c.seg_mode % 4));
    if truncated {
        out.label("stream-ends-inside-a-frame");
    }
    if inside {
        out.label("segment-boundary-inside-a-frame");
    }

    let want: Vec<F> = c.frames[..expect_frames].to_vec();
    let res = catch(|| {
        rt.block_on(async {
            let mut conn = Connection::new(ChunkStream {
                chunks: segs.into_iter().collect(),
                written: Vec::new(),
            });
            let mut got = Vec::new();
            loop {
                match conn.read_frame().await {
                    Ok(Some(f)) => got.push(F::from_frame(&f)),
                    Ok(None) => return (got, Ok(())),
                    Err(e) => return (got, Err(e.to_string())),
                }
                if got.len() > want.len() + 2 {
                    return (got, Err("more frames than were sent".to_string()));
                }
            }
        })
    });
    match res {
        Err(p) => {
            out.set_fail(
                format!("read-panic:{}", panic_site(&p)),
                format!("read_frame panicked ({} segments, mode {}): {}", nsegs, c.seg_mode % 4, p),
            );
            return out;
        }
        Ok((got, end)) => {
            if got != want {
                let i = got.iter().zip(want.iter()).position(|(a, b)| a != b).unwrap_or(got.len().min(want.len()));
                out.set_fail(
                    "roundtrip-mismatch",
                    format!(
                        "decoded {} frame(s), expected {}; first difference at frame #{}: got {:?}, expected {:?} ({} segments, mode {}; end of stream: {:?})",
                        got.len(),
                        want.len(),
                        i,
                        got.get(i).map(short),
                        want.get(i).map(short),
                        nsegs,
                        c.seg_mode % 4,
                        end
                    ),
                );
                return out;
            }
            match (truncated, end) {
                (false, Ok(())) => {}
                (false, Err(e)) => {
                    out.set_fail("clean-end-reported-as-error", format!("after all frames a clean end of stream was reported as error: {}", e));
                    return out;
                }
                (true, Ok(())) => {
                    out.set_fail(
                        "eof-inside-frame-reported-as-clean-end",
                        "the stream ended inside a frame but read_frame returned Ok(None)".to_string(),
                    );
                    return out;
                }
                (true, Err(_)) => {}
            }
        }
    }

    // (1b) the writer's bytes: decode what write_frame produced by feeding it to a reader is not
    // possible without access to the stream, so compare through a duplex pair instead
    let wr = catch(|| {
        rt.block_on(async {
            // a bounded pipe: when it is full a write is accepted only in part, as on a socket
            // under back-pressure; writer and reader run concurrently
            let cap = if c.pipe_cap == 0 { 1 << 22 } else { c.pipe_cap as usize };
            let (a, mut b) = tokio::io::duplex(cap);
            let writer = async {
                let mut conn = Connection::new(a);
                for f in &frames_real {
                    conn.write_frame(f).await.map_err(|e| e.to_string())?;
                }
                drop(conn);
                Ok::<_, String>(())
            };
            let reader = async {
                let mut v = Vec::new();
                tokio::io::AsyncReadExt::read_to_end(&mut b, &mut v).await.map_err(|e| e.to_string())?;
                Ok::<_, String>(v)
            };
            let (w, r) = tokio::join!(writer, reader);
            w?;
            r
        })
    });
    match wr {
        Ok(Ok(v)) => {
            if v != total {
                let at = v.iter().zip(total.iter()).position(|(a, b)| a != b).unwrap_or(v.len().min(total.len()));
                out.set_fail(
                    "encoder-differs",
                    format!(
                        "write_frame produced {} bytes, the reference encoder {}; first difference at offset {} (…{:?} vs …{:?})",
                        v.len(),
                        total.len(),
                        at,
                        String::from_utf8_lossy(&v[at.saturating_sub(8)..(at + 8).min(v.len())]),
                        String::from_utf8_lossy(&total[at.saturating_sub(8)..(at + 8).min(total.len())])
                    ),
                );
                return out;
            }
        }
        Ok(Err(e)) => {
            out.set_fail("write-error", format!("write_frame failed: {}", e));
            return out;
        }
        Err(p) => {
            out.set_fail(format!("write-panic:{}", panic_site(&p)), format!("write_frame panicked: {}", p));
            return out;
        }
    }

    // (3) every strict prefix of each frame's encoding is Incomplete
    let mut prefixes = 0u64;
    for (fi, e) in encs.iter().enumerate() {
        let points: Vec<usize> = if e.len() <= 4096 {
            (0..e.len()).collect()
        } else {
            // boundary dense sample
            let mut p: Vec<usize> = (0..64).collect();
            p.extend(e.len() - 64..e.len());
            p.extend((64..e.len() - 64).step_by(97));
            p
        };
        for p in points {
            prefixes += 1;
            let pre = &e[..p];
            let r = catch(|| {
                let mut cur = Cursor::new(pre);
                Frame::check(&mut cur)
            });
            let bad = match &r {
                Ok(Err(FrameError::Incomplete)) => None,
                Ok(Ok(())) => Some("accepted as a complete frame".to_string()),
                Ok(Err(e)) => Some(format!("rejected with error {:?}", e)),
                Err(p) => Some(format!("panicked: {}", p)),
            };
            if let Some(why) = bad {
                let sig = match &r {
                    Err(p) => format!("prefix-check-panic:{}", panic_site(p)),
                    Ok(Ok(())) => "prefix-accepted".to_string(),
                    _ => "prefix-rejected".to_string(),
                };
                out.set_fail(
                    sig,
                    format!(
                        "the {}-byte strict prefix {:?} of the valid encoding of frame #{} ({:?}) was {}",
                        p,
                        String::from_utf8_lossy(&pre[..pre.len().min(60)]),
                        fi,
                        short(&c.frames[fi]),
                        why
                    ),
                );
                return out;
            }
        }
    }
    out.count("strict-prefixes-checked", prefixes);
    out
}

fn short(f: &F) -> String {
    let s = format!("{:?}", f);
    if s.len() > 120 {
        format!("{}…", &s[..120])
    } else {
        s
    }
}

pub fn prop() -> Prop<RtCase> {
    Prop {
        id: "C08",
        level: "exploration",
        rule: "Cases: 1-6 frames the connection can write (simple strings/errors of arbitrary UTF-8 without CR/LF, i64 uniform plus MIN/MAX/0/-1/powers of ten, bulk strings of arbitrary bytes 0-20 KiB quick / 200 KiB thorough and, one frame in sixty, 60-140 KB (clustered at 64 KiB) or, rarely, around 512 KiB / 1 MiB, with CRLF at start/end/inside, null, flat arrays of those), a segmentation of the concatenated encoding (all at once / one byte at a time / generated cut points / cuts at and adjacent to every CRLF) and optionally a stream end strictly inside the last frame. Connection runs over an in-memory AsyncRead/AsyncWrite stream that delivers exactly those segments. Oracles: write_frame's bytes, written into a bounded pipe of generated capacity (16 B - 9 KB, so that writes are accepted only in part, or unbounded) while a reader drains it, equal a reference encoder's (differential); read_frame yields exactly the frame sequence and then Ok(None); a stream that ends inside a frame yields an error, not Ok(None) nor a frame; EVERY strict prefix of each frame's encoding (all up to 4 KiB, boundary-dense sample beyond) makes Frame::check answer Incomplete. Non-trivial: at least 2 frames and at least one segment boundary strictly inside a frame; distinct = distinct hash of the case.",
        assumptions: &["nested arrays are excluded: Connection::write_frame is unimplemented!() for them (not a frame the connection can write)"],
        needs_shim: false,
        budget: |t| t.pick(480000, 3000000),
        shards: |_| 16,
        strategy,
        exec,
        max_shrink_iters: 4000,
        replay_repeats: 1,
        watchdog_s: |t| t.pick(900, 7200),
    }
}
