//! C14 — data files are append-only and immutable, with ids that only grow.

use std::collections::{BTreeMap, BTreeSet};

use proptest::prelude::*;
use serde::{Deserialize, Serialize};

use crate::{
    diskfmt,
    engine::{Env, Failure, Outcome, Prop, Tier},
    gen::{op_strategy, Hist, Op, OpWeights, ValSizes},
    props::c03::workload,
    rec::{run_recorded_in, MemDir, RecRun},
    shim::{Kind, Rec},
    store::fail,
};

#[derive(Clone, Debug, Serialize, Deserialize)]
pub struct C14Case {
    pub hist: Hist,
    /// crash point as a fraction (per 65536) of the first run's mutating calls; the second
    /// workload starts from the directory that crash leaves
    pub crash_frac: u16,
    pub second: Vec<Op>,
}

fn strategy(tier: Tier) -> BoxedStrategy<C14Case> {
    let w = OpWeights {
        set: 10,
        get: 1,
        del: 4,
        merge: 3,
        reopen: 3,
    };
    (
        workload(tier, false, w, 3, 24, 80),
        any::<u16>(),
        proptest::collection::vec(op_strategy(w, ValSizes::Mixed), 0..tier.pick(12usize, 40usize)),
    )
        .prop_map(|(mut hist, crash_frac, second)| {
            // one case in twenty-five runs with interval sync (1 ms) and a pause after every
            // operation: the timer-driven sync must not touch anything but the active descriptor
            if crash_frac % 25 == 7 {
                hist.cfg.sync_interval_ms = 1;
            }
            C14Case { hist, crash_frac, second }
        })
        .boxed()
}

#[derive(Default)]
pub struct DirHistory {
    /// every file name the directory has ever contained
    pub ever_names: BTreeSet<String>,
    /// largest data/hint id the directory has ever contained
    pub max_id: Option<u64>,
    /// currently existing files: name -> expected content (shadow)
    pub shadow: BTreeMap<String, Vec<u8>>,
    /// fd -> name for descriptors this process obtained by creating the file
    pub created_fds: BTreeMap<i32, String>,
    /// files created by the current process
    pub created_by_me: BTreeSet<String>,
    pub stats_rollovers: u32,
    pub stats_creates: u32,
    pub stats_writes: u32,
    pub stats_unlinks: u32,
}

impl DirHistory {
    pub fn from_files(files: &BTreeMap<String, Vec<u8>>, ever: &BTreeSet<String>) -> Self {
        let mut h = DirHistory {
            shadow: files.clone(),
            ever_names: ever.clone(),
            ..Default::default()
        };
        for n in ever {
            if let Some((id, _)) = diskfmt::parse_name(n) {
                h.max_id = Some(h.max_id.map_or(id, |m| m.max(id)));
            }
        }
        h
    }

    /// Feed one log record; `Err` describes a violated invariant.
    pub fn feed(&mut self, r: &Rec, prefix: &str) -> Result<(), Failure> {
        if !r.rel.starts_with(prefix) {
            return Ok(());
        }
        let name = r.file.clone();
        let store_file = diskfmt::parse_name(&name);
        match &r.kind {
            Kind::Create => {
                let Some((id, ext)) = store_file else { return Ok(()) };
                let need = libc::O_CREAT | libc::O_EXCL | libc::O_APPEND;
                if r.flags & need != need || r.flags & libc::O_TRUNC != 0 {
                    return Err(fail(
                        "create-flags",
                        format!("{} opened for creation with flags {:#x}: O_CREAT|O_EXCL|O_APPEND required and O_TRUNC forbidden", name, r.flags),
                    ));
                }
                if r.result < 0 {
                    return Ok(());
                }
                self.stats_creates += 1;
                if self.ever_names.contains(&name) {
                    return Err(fail("name-reused", format!("{} was created although that name existed before", name)));
                }
                if ext == "data" {
                    if let Some(m) = self.max_id {
                        if id <= m {
                            return Err(fail(
                                "id-not-above-history",
                                format!("data file {} created with id {} while the directory has already contained id {}", name, id, m),
                            ));
                        }
                    }
                } else {
                    // a hint file carries the id of its data file, which this process created just before
                    let d = format!("{}.bitcask.data", id);
                    if !self.created_by_me.contains(&d) || !self.shadow.contains_key(&d) {
                        return Err(fail(
                            "hint-without-own-data-file",
                            format!("hint file {} created but its data file was not created by this process", name),
                        ));
                    }
                }
                self.max_id = Some(self.max_id.map_or(id, |m| m.max(id)));
                self.ever_names.insert(name.clone());
                self.shadow.insert(name.clone(), Vec::new());
                self.created_fds.insert(r.fd, name.clone());
                self.created_by_me.insert(name);
            }
            Kind::OpenWrite => {
                if store_file.is_some() {
                    return Err(fail(
                        "reopened-for-writing",
                        format!("existing file {} opened with write access (flags {:#x})", name, r.flags),
                    ));
                }
            }
            Kind::OpenRead => {}
            Kind::Write => {
                if store_file.is_none() {
                    return Ok(());
                }
                if r.result <= 0 {
                    return Ok(());
                }
                self.stats_writes += 1;
                match self.created_fds.get(&r.fd) {
                    Some(n) if *n == name => {}
                    _ => {
                        return Err(fail(
                            "write-through-foreign-descriptor",
                            format!("write to {} through a descriptor that was not obtained by creating it", name),
                        ))
                    }
                }
                match self.shadow.get_mut(&name) {
                    Some(v) => v.extend_from_slice(&r.data),
                    None => return Err(fail("write-to-removed-file", format!("write to {} after it was removed", name))),
                }
            }
            Kind::Fsync | Kind::Close => {
                if let Kind::Close = r.kind {
                    self.created_fds.remove(&r.fd);
                }
            }
            Kind::Mmap => {
                if store_file.is_some() && r.flags & libc::PROT_WRITE != 0 {
                    return Err(fail("writable-mapping", format!("{} mapped with PROT_WRITE", name)));
                }
            }
            Kind::Unlink => {
                if store_file.is_none() || r.result < 0 {
                    return Ok(());
                }
                self.stats_unlinks += 1;
                self.shadow.remove(&name);
            }
            Kind::Illegal(what) => {
                if store_file.is_some() || diskfmt::parse_name(r.rel.rsplit('/').next().unwrap_or("")).is_some() {
                    return Err(fail(format!("forbidden-call:{}", what), format!("{} applied to {}", what, r.rel)));
                }
            }
            Kind::Marker(..) => {}
        }
        Ok(())
    }

    pub fn compare(&self, real: &BTreeMap<String, Vec<u8>>, when: &str) -> Result<(), Failure> {
        for (n, want) in &self.shadow {
            match real.get(n) {
                None => return Err(fail("file-vanished", format!("{}: {} should exist (never unlinked) but does not", when, n))),
                Some(got) if got != want => {
                    let at = got.iter().zip(want.iter()).position(|(a, b)| a != b).unwrap_or(got.len().min(want.len()));
                    return Err(fail(
                        "file-content-changed",
                        format!(
                            "{}: {} holds {} bytes, the recorded appends give {} bytes; first difference at offset {}",
                            when,
                            n,
                            got.len(),
                            want.len(),
                            at
                        ),
                    ));
                }
                _ => {}
            }
        }
        for n in real.keys() {
            if diskfmt::parse_name(n).is_some() && !self.shadow.contains_key(n) {
                return Err(fail("unrecorded-file", format!("{}: {} exists but was never created through a recorded call", when, n)));
            }
        }
        Ok(())
    }
}

/// Check all invariants over one recorded run that started from `initial`.
pub fn check_run(run: &RecRun, prefix: &str, hist: &mut DirHistory, max_file_size: u64) -> Result<(), Failure> {
    let mut snap_i = 0;
    for (i, r) in run.log.iter().enumerate() {
        while snap_i < run.snaps.len() && run.snaps[snap_i].0 <= i {
            hist.compare(&run.snaps[snap_i].1, &format!("after op #{}", snap_i as i64 - 1))?;
            snap_i += 1;
        }
        hist.feed(r, prefix).map_err(|mut f| {
            f.msg = format!("log record #{}: {}", i, f.msg);
            f
        })?;
    }
    while snap_i < run.snaps.len() {
        hist.compare(&run.snaps[snap_i].1, &format!("after op #{}", snap_i as i64 - 1))?;
        snap_i += 1;
    }
    // no data file grows beyond the maximum by more than one entry: every entry starts at an
    // offset <= max_file_size
    if let Some((_, last)) = run.snaps.last() {
        for (n, content) in last {
            if let Some((_, "data")) = diskfmt::parse_name(n) {
                let (ents, _) = diskfmt::parse_data(content);
                if let Some(e) = ents.iter().find(|e| e.pos > max_file_size) {
                    return Err(fail(
                        "file-exceeds-max-by-more-than-one-entry",
                        format!("{}: an entry starts at offset {} although max_file_size is {}", n, e.pos, max_file_size),
                    ));
                }
            }
        }
    }
    Ok(())
}

fn exec(c: &C14Case, env: &Env) -> Outcome {
    let mut out = Outcome::pass();
    if c.hist.keys.is_empty() {
        return out;
    }
    let dir = env.fresh_dir("store");
    let run = run_recorded_in(&c.hist, &env.scratch, "store", true, true);
    if let Some(f) = run.failure.clone() {
        out.fail = Some(f);
        return out;
    }
    let mut h = DirHistory::default();
    let mfs = c.hist.cfg.max_file_size;
    if let Err(f) = check_run(&run, "store/", &mut h, mfs) {
        out.fail = Some(f);
        return out;
    }
    let has_merge = c.hist.ops.iter().any(|o| matches!(o, Op::Merge));
    let mut has_reopen = c.hist.ops.iter().any(|o| matches!(o, Op::Reopen));
    // rollover = a create of a data file inside a set/del op
    let mut rollovers = run
        .calls
        .iter()
        .filter(|e| matches!(&e.call, crate::rec::MCall::Create(f) if f.ends_with(".data")) && e.op.map_or(false, |o| matches!(c.hist.ops[o], Op::Set(..) | Op::Del(..))))
        .count();
    out.count("log-records-checked", run.log.len() as u64);
    out.count("files-created", h.stats_creates as u64);
    out.count("files-unlinked", h.stats_unlinks as u64);

    // second phase: start from the directory a crash at a generated point leaves
    let ncalls: Vec<&crate::rec::MEntry> = run.calls.iter().filter(|e| !matches!(e.call, crate::rec::MCall::Fsync(_))).collect();
    if !c.second.is_empty() && !ncalls.is_empty() {
        let k = (c.crash_frac as usize * (ncalls.len() + 1)) >> 16;
        let mut md = MemDir::default();
        let mut ever = BTreeSet::new();
        for e in &ncalls[..k] {
            md.apply(&e.call);
            if let crate::rec::MCall::Create(f) = &e.call {
                ever.insert(f.clone());
            }
        }
        md.materialise(&dir);
        let mut h2 = DirHistory::from_files(&md.files, &ever);
        let hist2 = Hist {
            cfg: c.hist.cfg.clone(),
            keys: c.hist.keys.clone(),
            ops: c.second.clone(),
        };
        let run2 = run_recorded_in(&hist2, &env.scratch, "store", true, true);
        // the in-process oracle of the second run does not apply: the model restarts empty while the
        // directory holds the first run's data; only the file-system invariants are checked here
        if let Some(f) = run2.failure.as_ref().filter(|f| f.sig.contains("panic") || f.sig == "open-failed") {
            out.fail = Some(f.clone());
            return out;
        }
        if let Err(mut f) = check_run(&run2, "store/", &mut h2, mfs) {
            f.msg = format!("second workload, started from the crash state before call #{}: {}", k, f.msg);
            out.fail = Some(f);
            return out;
        }
        has_reopen = true;
        out.label("crash-restart");
        rollovers += run2
            .calls
            .iter()
            .filter(|e| matches!(&e.call, crate::rec::MCall::Create(f) if f.ends_with(".data")) && e.op.is_some())
            .count();
        out.count("log-records-checked", run2.log.len() as u64);
    }
    let _ = std::fs::remove_dir_all(&dir);
    out.nontrivial = has_merge && has_reopen && rollovers > 0;
    if has_merge {
        out.label("has-merge");
    }
    if c.hist.cfg.sync_interval_ms > 0 {
        out.label("interval-sync");
    }
    if rollovers > 0 {
        out.label("has-rollover");
    }
    out
}

pub fn prop() -> Prop<C14Case> {
    Prop {
        id: "C14",
        level: "exploration",
        rule: "Workloads (set/get/del/merge/reopen, 3-24 ops quick / up to 80 thorough) run under the LD_PRELOAD recorder; a second generated workload is then started from the directory left by a crash at a generated point of the first. One case in twenty-five runs with interval sync (1 ms) and a 1.5 ms pause after every operation, so that the timer-driven sync runs between rollovers and merges. Invariants are checked over EVERY recorded call: creation only with O_CREAT|O_EXCL|O_APPEND and no O_TRUNC; no open of an existing store file with write access; no truncate/rename/pwrite/link/fallocate; no writable mapping; writes only through descriptors obtained by creating the file; a shadow copy built from the recorded appends equals the real directory after the open and after every op (catches modification by any route); a created data file's id exceeds every id the directory has ever contained (across the crash), a hint file carries the id of a data file this process created; no name is ever re-created; and an independent decoder finds every entry starting at an offset <= max_file_size. Non-trivial: the log contains at least one rollover, one merge and one (crash-)reopen; distinct = distinct hash of the whole case.",
        assumptions: &[
            "only calls that go through libc's open/write/pwrite/truncate/rename/unlink/link/fallocate/mmap wrappers are observed (raw syscalls would be missed; the shadow-copy comparison still catches their effects)",
        ],
        needs_shim: true,
        budget: |t| t.pick(80000, 250000),
        shards: |_| 16,
        strategy,
        exec,
        max_shrink_iters: 3000,
        replay_repeats: 1,
        watchdog_s: |t| t.pick(900, 7200),
    }
}
