//! One module per property.

use crate::engine::Property;

pub mod c01;
pub mod c02;

pub fn all() -> Vec<Box<dyn Property>> {
    vec![Box::new(c01::prop()), Box::new(c02::prop())]
}

/// Extra sub commands (worker children, server children).
pub fn extra_command(_name: &str, _args: &[String]) -> Option<i32> {
    None
}
