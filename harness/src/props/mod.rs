//! One module per property.

use crate::engine::Property;

pub mod c01;
pub mod c02;
pub mod c03;
pub mod c04;
pub mod c05;
pub mod c06;
pub mod c07;
pub mod c08;
pub mod c09;
pub mod c10;
pub mod c11;
pub mod c12;
pub mod c13;
pub mod c14;
pub mod c15;
pub mod c16;
pub mod c17;
pub mod c18;
pub mod c19;
pub mod c20;
pub mod mergefam;

pub fn all() -> Vec<Box<dyn Property>> {
    vec![Box::new(c01::prop()), Box::new(c02::prop()),
        Box::new(c03::prop()),
        Box::new(c04::prop()),
        Box::new(c05::prop()),
        Box::new(c06::prop()),
        Box::new(c07::prop()),
        Box::new(c08::prop()),
        Box::new(c09::prop()),
        Box::new(c10::prop()),
        Box::new(c11::prop()),
        Box::new(c12::prop()),
        Box::new(c13::prop()),
        Box::new(c14::prop()),
        Box::new(c15::prop()),
        Box::new(c16::prop()),
        Box::new(c17::prop()),
        Box::new(c18::prop()),
        Box::new(c19::prop()),
        Box::new(c20::prop()),
    ]
}

/// Extra sub commands (worker children, server children).
pub fn extra_command(name: &str, args: &[String]) -> Option<i32> {
    match name {
        "c07-worker" => Some(c07::worker_main(args)),
        "serve" => Some(c10::serve_main(args)),
        _ => None,
    }
}
