//! C19 — per-file live/dead accounting always matches the files' real contents.

use proptest::prelude::*;

use crate::{
    engine::{Env, Outcome, Prop, Tier},
    gen::{Hist, OpWeights},
    props::{c01::hist_labels, mergefam},
    store::{run_hist, Checks},
};

fn strategy(tier: Tier) -> BoxedStrategy<Hist> {
    mergefam::strategy(
        tier,
        OpWeights {
            set: 10,
            get: 0,
            del: 5,
            merge: 2,
            reopen: 2,
        },
        10,
    )
}

fn exec(h: &Hist, env: &Env) -> Outcome {
    let (f, st) = run_hist(
        h,
        &env.scratch,
        Checks {
            acct: true,
            ..Checks::default()
        },
    );
    let mut out = Outcome::pass();
    out.fail = f;
    out.nontrivial = st.dels_present > 0 && st.cross_file_overwrites > 0 && st.merges > 0 && st.reopens > 0;
    hist_labels(&mut out, h, &st);
    out.count("accounting-comparisons", st.acct_checks as u64);
    out
}

pub fn prop() -> Prop<Hist> {
    Prop {
        id: "C19",
        level: "exploration",
        rule: "Cases are histories over set/del/merge/reopen (overwrites across files, deletes of absent keys, merges of any subset, rebuilds from data and from hint files). After every op the verif_dump snapshot is compared with an independent decoder's scan of the data files: every index entry must decode at (file,pos,len) to its key with a value; per file live = index entries pointing into it, dead = all other entries, dead bytes = their total size (a missing accounting entry counts as zeros). Non-trivial: the history contains a delete of a present key, a cross-file overwrite, a merge and a reopen; distinct = distinct hash of the whole case.",
        assumptions: &["the current value of a key is taken from the store's own index and cross-checked against the disk, so C02/C05 defects are not re-reported here"],
        needs_shim: false,
        budget: |t| t.pick(48000, 250000),
        shards: |_| 16,
        strategy,
        exec,
        max_shrink_iters: 6000,
        replay_repeats: 1,
        watchdog_s: |t| t.pick(600, 3600),
    }
}
