//! C04 — concurrent gets, sets and deletes are linearizable and never panic or hang.

use std::{
    collections::BTreeMap,
    sync::{
        atomic::{AtomicBool, AtomicU64, Ordering::SeqCst},
        Arc, Mutex,
    },
    time::{Duration, Instant},
};

use bitcask::storage::KeyValueStorage;
use bytes::Bytes;
use proptest::prelude::*;
use serde::{Deserialize, Serialize};

use crate::{
    engine::{catch, panic_site, Env, Outcome, Prop, Tier},
    gen::{key_bytes, key_strategy, pick, KeySpec, StoreCfg},
    lin::{check_register, LKind, LOp},
    shim::{self, PlanEntry},
    store::open_caught,
};

#[derive(Clone, Debug, Serialize, Deserialize)]
pub enum COp {
    /// key index byte, size class (0 small, 1 page crossing, 2 above the write buffer)
    Set(u8, u8, u16),
    Get(u8),
    Del(u8),
}

#[derive(Clone, Debug, Serialize, Deserialize)]
pub struct PlanSpec {
    /// 1..=threads are client threads, threads+1 is the merging thread
    pub role: u8,
    /// 0 write-data, 1 write-hint, 2 create, 3 unlink, 4 open-read, 5 mmap, 6 fsync
    pub class: u8,
    pub nth: u8,
    pub split: bool,
    pub frac_pm: u16,
    pub m: u8,
    pub timeout_us: u32,
    /// for the read-side classes (open-read, mmap): instead of pausing, fail the call with
    /// 1 EMFILE, 2 ENOMEM, 3 EIO (0 = no fault)
    #[serde(default)]
    pub fail: u8,
}

#[derive(Clone, Debug, Serialize, Deserialize)]
pub struct ConcCase {
    pub cfg: StoreCfg,
    pub keys: Vec<KeySpec>,
    pub threads: Vec<Vec<COp>>,
    pub merges: u8,
    pub plan: Vec<PlanSpec>,
}

pub fn cop_strategy() -> BoxedStrategy<COp> {
    prop_oneof![
        5 => (any::<u8>(), prop_oneof![4 => Just(0u8), 2 => Just(1u8), 3 => Just(2u8)], any::<u16>()).prop_map(|(k, c, x)| COp::Set(k, c, x)),
        6 => any::<u8>().prop_map(COp::Get),
        2 => any::<u8>().prop_map(COp::Del),
    ]
    .boxed()
}

pub fn plan_strategy(max_role: u8) -> BoxedStrategy<Vec<PlanSpec>> {
    proptest::collection::vec(
        (
            1u8..=max_role,
            prop_oneof![6 => Just(0u8), 1 => Just(1u8), 2 => Just(2u8), 1 => Just(3u8), 2 => Just(4u8), 3 => Just(5u8), 1 => Just(6u8)],
            0u8..6,
            any::<bool>(),
            1u16..999,
            1u8..5,
            200u32..4000,
            prop_oneof![3 => Just(0u8), 1 => 1u8..4],
        )
            .prop_map(|(role, class, nth, split, frac_pm, m, timeout_us, fail)| PlanSpec {
                role,
                class,
                nth,
                split,
                frac_pm,
                m,
                timeout_us,
                fail,
            }),
        0..5,
    )
    .boxed()
}

pub fn conc_cfg() -> BoxedStrategy<StoreCfg> {
    (
        prop_oneof![
            1 => Just(0u64),
            3 => 100u64..600,
            3 => 4000u64..12000,
            3 => 20000u64..60000,
            2 => Just(2u64 << 30),
        ],
        prop_oneof![Just(0usize), Just(1), Just(2), Just(256)],
        prop_oneof![Just(0usize), Just(1), Just(2), Just(4)],
        crate::gen::frag_strategy(),
        crate::gen::dead_bytes_strategy(),
        crate::gen::small_file_strategy(),
    )
        .prop_map(|(max_file_size, readers_cache, concurrency, frag, dead_bytes, small_file)| StoreCfg {
            max_file_size,
            readers_cache,
            concurrency,
            frag,
            dead_bytes,
            small_file,
            sync_always: false,
            sync_interval_ms: 0,
        })
        .boxed()
}

fn strategy(tier: Tier) -> BoxedStrategy<ConcCase> {
    let maxops = tier.pick(16usize, 30usize);
    (2usize..=4)
        .prop_flat_map(move |nt| {
            (
                conc_cfg(),
                proptest::collection::vec(key_strategy(false), 2..=4),
                proptest::collection::vec(proptest::collection::vec(cop_strategy(), 4..=maxops), nt),
                0u8..4,
                plan_strategy(nt as u8 + 1),
            )
        })
        .prop_map(|(cfg, keys, threads, merges, plan)| ConcCase {
            cfg,
            keys,
            threads,
            merges,
            plan,
        })
        .boxed()
}

/// Value written by (thread, index): 8 byte id, then filler up to the size class.
pub fn conc_value(thread: usize, idx: usize, class: u8, x: u16) -> (u64, Vec<u8>) {
    let id = ((thread as u64 + 1) << 32) | idx as u64;
    let len = match class {
        0 => 8 + (x as usize % 120),
        1 => 4040 + (x as usize % 90),
        _ => 8150 + (x as usize % 9000),
    };
    let mut v = Vec::with_capacity(len);
    v.extend_from_slice(&id.to_le_bytes());
    let mut s = id.wrapping_mul(0x9E3779B97F4A7C15) | 1;
    while v.len() < len {
        s ^= s << 13;
        s ^= s >> 7;
        s ^= s << 17;
        v.push((s >> 16) as u8);
    }
    (id, v)
}

/// operations that returned an error because a planned read fault was injected into them
static FAULTED_OPS: AtomicU64 = AtomicU64::new(0);

#[derive(Clone, Debug)]
pub struct Event {
    pub key: usize,
    pub op: LOp,
}

pub struct ConcResult {
    pub events: Vec<Event>,
    pub panics: Vec<String>,
    pub errors: Vec<String>,
    pub corrupt: Vec<String>,
    pub hung: bool,
    pub merges_done: u32,
    pub fired: u32,
}

/// Check per-key linearizability; returns Err(description) for the first key that fails.
pub fn check_lin(events: &[Event], nkeys: usize) -> Result<(), String> {
    for k in 0..nkeys {
        let ops: Vec<LOp> = events.iter().filter(|e| e.key == k).map(|e| e.op).collect();
        if let Err(e) = check_register(&ops) {
            return Err(format!("key #{}: {}", k, e));
        }
    }
    Ok(())
}

/// Is there a pair of operations from different threads on one key that overlap in real time?
pub fn has_overlap(events: &[Event]) -> bool {
    for (i, a) in events.iter().enumerate() {
        for b in events.iter().skip(i + 1) {
            if a.key == b.key && a.op.who.0 != b.op.who.0 && a.op.inv < b.op.resp && b.op.inv < a.op.resp {
                return true;
            }
        }
    }
    false
}

fn exec(c: &ConcCase, env: &Env) -> Outcome {
    let mut out = Outcome::pass();
    if c.keys.is_empty() || c.threads.is_empty() {
        return out;
    }
    let dir = env.fresh_dir("store");
    shim::register(&env.scratch);
    let base_threads = crate::store::thread_count();
    let kv = match open_caught(&c.cfg, &dir) {
        Ok(kv) => kv,
        Err(e) => return Outcome::failed("open-failed", e),
    };
    let handle = kv.get_handle();
    // distinct keys (duplicates in the pool map to the first occurrence)
    let mut keys: Vec<Vec<u8>> = Vec::new();
    let mut key_index: Vec<usize> = Vec::new();
    for k in c.keys.iter().map(key_bytes) {
        match keys.iter().position(|x| *x == k) {
            Some(i) => key_index.push(i),
            None => {
                keys.push(k);
                key_index.push(keys.len() - 1);
            }
        }
    }
    let keys = Arc::new(keys);
    let key_index = Arc::new(key_index);
    let nthreads = c.threads.len();
    // expected bytes of every value id
    let mut expected: BTreeMap<u64, Vec<u8>> = BTreeMap::new();
    for (t, prog) in c.threads.iter().enumerate() {
        for (i, op) in prog.iter().enumerate() {
            if let COp::Set(_, cl, x) = op {
                let (id, v) = conc_value(t, i, *cl, *x);
                expected.insert(id, v);
            }
        }
    }
    let expected = Arc::new(expected);
    let plan: Vec<PlanEntry> = c
        .plan
        .iter()
        .map(|p| PlanEntry {
            role: p.role,
            class: p.class,
            nth: p.nth as u32,
            split: p.split && p.class <= 1,
            frac_pm: p.frac_pm as u32,
            m: p.m as u32,
            timeout_us: p.timeout_us as u64,
            fail_errno: match p.fail { 1 => libc::EMFILE, 2 => libc::ENOMEM, 3 => libc::EIO, _ => 0 },
        })
        .collect();
    shim::plan_install(plan);
    FAULTED_OPS.store(0, SeqCst);

    let clock = Arc::new(AtomicU64::new(0));
    let stop = Arc::new(AtomicBool::new(false));
    let events: Arc<Mutex<Vec<Event>>> = Arc::new(Mutex::new(Vec::new()));
    let panics: Arc<Mutex<Vec<String>>> = Arc::new(Mutex::new(Vec::new()));
    let errors: Arc<Mutex<Vec<String>>> = Arc::new(Mutex::new(Vec::new()));
    let corrupt: Arc<Mutex<Vec<String>>> = Arc::new(Mutex::new(Vec::new()));
    let done = Arc::new(AtomicU64::new(0));
    let merges_done = Arc::new(AtomicU64::new(0));
    let start = Arc::new(std::sync::Barrier::new(nthreads + 1));

    let mut joins = Vec::new();
    for (t, prog) in c.threads.iter().cloned().enumerate() {
        let (h, keys, key_index, clock, stop, events, panics, errors, corrupt, done, expected, start) = (
            handle.clone(),
            keys.clone(),
            key_index.clone(),
            clock.clone(),
            stop.clone(),
            events.clone(),
            panics.clone(),
            errors.clone(),
            corrupt.clone(),
            done.clone(),
            expected.clone(),
            start.clone(),
        );
        joins.push(std::thread::spawn(move || {
            shim::set_role(t as u8 + 1);
            start.wait();
            for (i, op) in prog.iter().enumerate() {
                if stop.load(SeqCst) {
                    break;
                }
                let n = key_index.len();
                let (ki, kind_res): (usize, Result<Result<LKind, String>, String>) = match op {
                    COp::Set(k, cl, x) => {
                        let ki = key_index[pick(*k, n)];
                        let (id, v) = conc_value(t, i, *cl, *x);
                        let kb = Bytes::from(keys[ki].clone());
                        let hh = h.clone();
                        shim::fault_flag_reset();
                        let inv = clock.fetch_add(1, SeqCst);
                        let r = catch(move || hh.set(kb, Bytes::from(v)).map(|_| LKind::Set(id)).map_err(|e| e.to_string()));
                        let resp = clock.fetch_add(1, SeqCst);
                        record(&events, &panics, &errors, ki, inv, resp, (t as u32, i as u32), r.clone(), "set");
                        (ki, r)
                    }
                    COp::Get(k) => {
                        let ki = key_index[pick(*k, n)];
                        let kb = Bytes::from(keys[ki].clone());
                        let hh = h.clone();
                        let exp = expected.clone();
                        let corrupt2 = corrupt.clone();
                        shim::fault_flag_reset();
                        let inv = clock.fetch_add(1, SeqCst);
                        let r = catch(move || {
                            hh.get(kb)
                                .map(|v| {
                                    LKind::Get(v.map(|b| {
                                        let id = if b.len() >= 8 { u64::from_le_bytes(b[..8].try_into().unwrap()) } else { u64::MAX };
                                        if exp.get(&id).map(|e| e.as_slice()) != Some(b.as_ref()) {
                                            corrupt2.lock().unwrap().push(format!(
                                                "get returned {} bytes that are not any value ever written (claimed id {:#x})",
                                                b.len(),
                                                id
                                            ));
                                        }
                                        id
                                    }))
                                })
                                .map_err(|e| e.to_string())
                        });
                        let resp = clock.fetch_add(1, SeqCst);
                        record(&events, &panics, &errors, ki, inv, resp, (t as u32, i as u32), r.clone(), "get");
                        (ki, r)
                    }
                    COp::Del(k) => {
                        let ki = key_index[pick(*k, n)];
                        let kb = Bytes::from(keys[ki].clone());
                        let hh = h.clone();
                        shim::fault_flag_reset();
                        let inv = clock.fetch_add(1, SeqCst);
                        let r = catch(move || hh.del(kb).map(LKind::Del).map_err(|e| e.to_string()));
                        let resp = clock.fetch_add(1, SeqCst);
                        record(&events, &panics, &errors, ki, inv, resp, (t as u32, i as u32), r.clone(), "del");
                        (ki, r)
                    }
                };
                let _ = ki;
                if kind_res.is_err() {
                    // a panic was witnessed: everybody stops issuing operations
                    stop.store(true, SeqCst);
                }
                shim::op_done();
            }
            done.fetch_add(1, SeqCst);
        }));
    }
    // merging thread
    {
        let (h, stop, panics, errors, done, merges_done, start) = (handle.clone(), stop.clone(), panics.clone(), errors.clone(), done.clone(), merges_done.clone(), start.clone());
        let merges = c.merges;
        let role = nthreads as u8 + 1;
        let total_ops: usize = c.threads.iter().map(|p| p.len()).sum();
        joins.push(std::thread::spawn(move || {
            shim::set_role(role);
            start.wait();
            for mi in 0..merges {
                // spread the merges over the run
                let target = (total_ops as u64 * (mi as u64 + 1)) / (merges as u64 + 1);
                let t0 = Instant::now();
                while shim::OPS_DONE.load(SeqCst) < target && t0.elapsed() < Duration::from_millis(200) && !stop.load(SeqCst) {
                    std::thread::sleep(Duration::from_micros(50));
                }
                if stop.load(SeqCst) {
                    break;
                }
                let hh = h.clone();
                shim::fault_flag_reset();
                match catch(move || hh.verif_merge().map_err(|e| e.to_string())) {
                    Ok(Ok(())) => {
                        merges_done.fetch_add(1, SeqCst);
                    }
                    Ok(Err(_)) if shim::fault_flag() => {
                        FAULTED_OPS.fetch_add(1, SeqCst);
                    }
                    Ok(Err(e)) => errors.lock().unwrap().push(format!("merge returned an error: {}", e)),
                    Err(p) => {
                        panics.lock().unwrap().push(format!("merge panicked: {}", p));
                        stop.store(true, SeqCst);
                    }
                }
                shim::op_done();
            }
            done.fetch_add(1, SeqCst);
        }));
    }

    // wait with a watchdog
    let t0 = Instant::now();
    let limit = Duration::from_secs(20);
    let want = nthreads as u64 + 1;
    while done.load(SeqCst) < want && t0.elapsed() < limit {
        std::thread::sleep(Duration::from_micros(200));
    }
    let hung = done.load(SeqCst) < want;
    let fired = shim::plan_clear();
    if !hung {
        for j in joins {
            let _ = j.join();
        }
    }
    let panics_v = panics.lock().unwrap().clone();
    let errors_v = errors.lock().unwrap().clone();
    let corrupt_v = corrupt.lock().unwrap().clone();
    let events_v = events.lock().unwrap().clone();

    out.count("operations", events_v.len() as u64);
    out.count("merges-completed", merges_done.load(SeqCst));
    out.count("perturbations-fired", fired as u64);
    let faulted = FAULTED_OPS.load(SeqCst);
    out.count("ops-failed-by-injected-read-fault", faulted);
    if faulted > 0 {
        out.label("read-fault-injected");
    }
    if fired > 0 {
        out.label("perturbation-fired");
    }
    if merges_done.load(SeqCst) > 0 {
        out.label("merge-ran");
    }
    let overlap = has_overlap(&events_v);
    if overlap {
        out.label("cross-thread-overlap-on-a-key");
    }
    out.nontrivial = overlap && fired > 0;

    if let Some(p) = panics_v.first() {
        out.set_fail(format!("panic:{}", panic_site(p)), format!("an operation panicked: {}", p));
    } else if hung {
        out.set_fail(
            "hang",
            format!("{} of {} threads did not finish within {} s although no operation can block forever", want - done.load(SeqCst), want, limit.as_secs()),
        );
    } else if let Some(e) = errors_v.first() {
        out.set_fail("op-error", format!("an operation returned an error although no fault was injected: {}", e));
    } else if let Some(e) = corrupt_v.first() {
        out.set_fail("corrupt-value", e.clone());
    } else if let Err(e) = check_lin(&events_v, keys.len()) {
        out.set_fail("not-linearizable", e);
    }
    if hung {
        // threads are stuck inside the code under test (e.g. spinning for a reader that was
        // never returned): this process cannot run further cases
        out.fatal = true;
        return out;
    }
    // the ability to serve reads is never permanently reduced
    let d = handle.verif_dump();
    if d.readers_len != d.readers_capacity && out.fail.is_none() {
        out.set_fail(
            "reader-pool-shrunk",
            format!("at quiescence the reader pool holds {} of {} readers", d.readers_len, d.readers_capacity),
        );
    }
    if panics_v.is_empty() {
        // every key still readable after the run
        for k in keys.iter() {
            let (hh, kb) = (handle.clone(), Bytes::from(k.clone()));
            // never enter get with an exhausted pool: it would spin forever
            let d = handle.verif_dump();
            if d.readers_len == 0 {
                out.set_fail("reader-pool-shrunk", format!("the reader pool holds 0 of {} readers", d.readers_capacity));
                break;
            }
            match catch(move || hh.get(kb)) {
                Ok(Ok(_)) => {}
                Ok(Err(e)) => {
                    out.set_fail("op-error", format!("final get failed: {}", e));
                    break;
                }
                Err(p) => {
                    out.set_fail(format!("panic:{}", panic_site(&p)), format!("final get panicked: {}", p));
                    break;
                }
            }
        }
    }
    drop(handle);
    drop(kv);
    crate::store::wait_bg_exit(base_threads);
    let _ = std::fs::remove_dir_all(&dir);
    out
}

#[allow(clippy::too_many_arguments)]
fn record(
    events: &Mutex<Vec<Event>>,
    panics: &Mutex<Vec<String>>,
    errors: &Mutex<Vec<String>>,
    key: usize,
    inv: u64,
    resp: u64,
    who: (u32, u32),
    r: Result<Result<LKind, String>, String>,
    what: &str,
) {
    match r {
        Ok(Ok(kind)) => events.lock().unwrap().push(Event {
            key,
            op: LOp { inv, resp, kind, who },
        }),
        Ok(Err(e)) => {
            // an error is expected exactly when a planned read fault hit a call of this operation
            if shim::fault_flag() {
                FAULTED_OPS.fetch_add(1, SeqCst);
            } else {
                errors.lock().unwrap().push(format!("{} by thread {} (op {}) failed: {}", what, who.0, who.1, e));
            }
        }
        Err(p) => panics.lock().unwrap().push(format!("{} by thread {} (op {}): {}", what, who.0, who.1, p)),
    }
}

pub fn prop() -> Prop<ConcCase> {
    Prop {
        id: "C04",
        level: "exploration",
        rule: "Cases: 2-4 client threads with generated programs (4-16 ops quick / up to 30 thorough over set/get/del on 2-4 shared keys; values unique per (thread,index) in three size classes: small, page crossing, above the 8 KiB write buffer), one merging thread calling verif_merge 0-3 times, a generated store configuration (small max_file_size, reader pool 1-4, reader cache 0-256) and a generated perturbation plan for the LD_PRELOAD shim: at the n-th write-data/write-hint/create/unlink/open-read/mmap/fsync call of a given thread, park that thread until the others completed m ops (or a timeout), or split that write into two real writes and park in between, or make that open-for-read / mmap call fail once with EMFILE/ENOMEM/EIO. Oracle: no panic (catch_unwind), no Err except from an operation into which a read fault was injected, every read value is byte-identical to a written one, each key's history (invocation/response stamped by one atomic counter) is accepted by a Wing-Gong linearizability checker for a register with delete, the reader pool is full at quiescence, no thread hangs. Non-trivial: at least one pair of operations from different threads on the same key overlaps in real time and at least one planned perturbation fired; distinct = distinct hash of the whole case.",
        assumptions: &[
            "schedules are sampled, not enumerated: the harness owns preemption only at tracked file-system calls (pause/split plans), everything else is the OS scheduler's choice",
            "a watchdog expiry counts as a violation only as 'hang' of threads inside store operations (20 s for at most 120 tiny operations)",
        ],
        needs_shim: true,
        budget: |t| t.pick(72000, 400000),
        shards: |_| 16,
        strategy,
        exec,
        max_shrink_iters: 400,
        replay_repeats: 50,
        watchdog_s: |t| t.pick(900, 7200),
    }
}
