//! Independent decoder of the on-disk format, written from the format and not by calling the crate.
//!
//! data entry  = i64 tstamp | u64 klen | key | u8 tag | [u64 vlen | value]     (bincode 1, LE, fixint)
//!               size 25+klen+vlen for a value, 17+klen for a tombstone
//! hint entry  = i64 tstamp | u64 len | u64 pos | u64 klen | key

use std::{
    collections::BTreeMap,
    path::{Path, PathBuf},
};

#[derive(Clone, Debug, PartialEq, Eq)]
pub struct DataEntry {
    pub pos: u64,
    pub len: u64,
    pub key: Vec<u8>,
    /// None = tombstone
    pub value: Option<Vec<u8>>,
}

#[derive(Clone, Debug, PartialEq, Eq)]
pub struct HintEntry {
    pub len: u64,
    pub pos: u64,
    pub key: Vec<u8>,
}

fn rd_u64(b: &[u8], at: usize) -> Option<u64> {
    if at + 8 > b.len() {
        return None;
    }
    let mut a = [0u8; 8];
    a.copy_from_slice(&b[at..at + 8]);
    Some(u64::from_le_bytes(a))
}

/// Decode a data file; returns the complete entries and the number of trailing bytes that do not
/// form a complete entry.
pub fn parse_data(b: &[u8]) -> (Vec<DataEntry>, usize) {
    let mut out = Vec::new();
    let mut at = 0usize;
    loop {
        let start = at;
        let rest = b.len() - start;
        let klen = match rd_u64(b, at + 8) {
            Some(k) => k as usize,
            None => return (out, rest),
        };
        at += 16;
        if klen > b.len() || at + klen + 1 > b.len() {
            return (out, rest);
        }
        let key = b[at..at + klen].to_vec();
        at += klen;
        let tag = b[at];
        at += 1;
        let value = match tag {
            0 => None,
            1 => {
                let vlen = match rd_u64(b, at) {
                    Some(v) => v as usize,
                    None => return (out, rest),
                };
                at += 8;
                if vlen > b.len() || at + vlen > b.len() {
                    return (out, rest);
                }
                let v = b[at..at + vlen].to_vec();
                at += vlen;
                Some(v)
            }
            _ => return (out, rest),
        };
        out.push(DataEntry {
            pos: start as u64,
            len: (at - start) as u64,
            key,
            value,
        });
        if at == b.len() {
            return (out, 0);
        }
    }
}

pub fn parse_hint(b: &[u8]) -> (Vec<HintEntry>, usize) {
    let mut out = Vec::new();
    let mut at = 0usize;
    loop {
        let start = at;
        let rest = b.len() - start;
        let (len, pos, klen) = match (rd_u64(b, at + 8), rd_u64(b, at + 16), rd_u64(b, at + 24)) {
            (Some(l), Some(p), Some(k)) => (l, p, k as usize),
            _ => return (out, rest),
        };
        at += 32;
        if klen > b.len() || at + klen > b.len() {
            return (out, rest);
        }
        let key = b[at..at + klen].to_vec();
        at += klen;
        out.push(HintEntry { len, pos, key });
        if at == b.len() {
            return (out, 0);
        }
    }
}

pub fn data_name(dir: &Path, id: u64) -> PathBuf {
    dir.join(format!("{}.bitcask.data", id))
}
pub fn hint_name(dir: &Path, id: u64) -> PathBuf {
    dir.join(format!("{}.bitcask.hint", id))
}

/// Parse `<id>.bitcask.<ext>`.
pub fn parse_name(name: &str) -> Option<(u64, &str)> {
    let mut it = name.split('.');
    let id = it.next()?.parse::<u64>().ok()?;
    if it.next()? != "bitcask" {
        return None;
    }
    let ext = it.next()?;
    if it.next().is_some() {
        return None;
    }
    match ext {
        "data" | "hint" => Some((id, ext)),
        _ => None,
    }
}

#[derive(Clone, Debug, Default)]
pub struct DirScan {
    /// data file id -> (entries, trailing garbage bytes, file size)
    pub data: BTreeMap<u64, (Vec<DataEntry>, usize, u64)>,
    /// hint file id -> (entries, trailing bytes)
    pub hints: BTreeMap<u64, (Vec<HintEntry>, usize)>,
    pub other_files: Vec<String>,
}

pub fn scan_dir(dir: &Path) -> DirScan {
    let mut s = DirScan::default();
    let rd = match std::fs::read_dir(dir) {
        Ok(r) => r,
        Err(_) => return s,
    };
    for e in rd.filter_map(|e| e.ok()) {
        let name = e.file_name().to_string_lossy().to_string();
        match parse_name(&name) {
            Some((id, "data")) => {
                let b = std::fs::read(e.path()).unwrap_or_default();
                let (ents, rest) = parse_data(&b);
                s.data.insert(id, (ents, rest, b.len() as u64));
            }
            Some((id, _)) => {
                let b = std::fs::read(e.path()).unwrap_or_default();
                let (ents, rest) = parse_hint(&b);
                s.hints.insert(id, (ents, rest));
            }
            None => s.other_files.push(name),
        }
    }
    s
}

impl DirScan {
    /// The contents a correct recovery that scans every data file must arrive at: ascending file
    /// id, later entry wins, tombstone deletes.
    pub fn intended_recovery(&self) -> BTreeMap<Vec<u8>, Vec<u8>> {
        let mut m = BTreeMap::new();
        for (ents, _, _) in self.data.values() {
            for e in ents {
                match &e.value {
                    Some(v) => {
                        m.insert(e.key.clone(), v.clone());
                    }
                    None => {
                        m.remove(&e.key);
                    }
                }
            }
        }
        m
    }

    pub fn total_data_size(&self) -> u64 {
        self.data.values().map(|(_, _, sz)| *sz).sum()
    }
}

/// Size of the data entry holding `key` -> `value`.
pub fn value_entry_size(klen: usize, vlen: usize) -> u64 {
    25 + klen as u64 + vlen as u64
}
