// LD_PRELOAD syscall interposer for the bitcask verification harness.
//
// The shim contains no policy.  For file-system calls on paths below a registered root
// (or on descriptors opened there) it invokes callbacks registered by the harness:
//   pre(event, &action)   before the call; the action may make the call fail, be short,
//                         or (for write) be split into two real writes with `mid` in between
//   mid(event)            between the two halves of a split write
//   post(event, result, errno)  after the call
// Everything else is passed straight through to libc.
#define _GNU_SOURCE
#include <dlfcn.h>
#include <errno.h>
#include <fcntl.h>
#include <stdarg.h>
#include <stddef.h>
#include <stdint.h>
#include <string.h>
#include <sys/mman.h>
#include <sys/stat.h>
#include <sys/types.h>
#include <sys/uio.h>
#include <unistd.h>

enum {
  EV_OPEN = 1,
  EV_WRITE = 2,
  EV_FSYNC = 3,
  EV_UNLINK = 4,
  EV_MMAP = 5,
  EV_CLOSE = 6,
  EV_TRUNCATE = 7,
  EV_RENAME = 8,
  EV_PWRITE = 9,
  EV_OTHER = 10, // link, symlink, fallocate, writev ... (never expected on store files)
};

typedef struct {
  int32_t kind;
  int32_t fd;
  int32_t flags;
  int32_t sub;
  const char *path;
  const char *path2;
  const void *buf;
  uint64_t len;
  int64_t off;
} vshim_event;

enum { ACT_PASS = 0, ACT_FAIL = 1, ACT_SHORT = 2, ACT_SPLIT = 3 };

typedef struct {
  int32_t action;
  int32_t err;
  uint64_t n;
} vshim_action;

typedef void (*vshim_pre_fn)(const vshim_event *, vshim_action *);
typedef void (*vshim_post_fn)(const vshim_event *, int64_t, int32_t);
typedef void (*vshim_mid_fn)(const vshim_event *);

static char g_root[1024];
static size_t g_root_len = 0;
static volatile int g_active = 0;
static vshim_pre_fn g_pre;
static vshim_post_fn g_post;
static vshim_mid_fn g_mid;
#define MAXFD 65536
static volatile unsigned char g_tracked[MAXFD];
static __thread int in_cb = 0;

__attribute__((visibility("default"))) void vshim_register(const char *root, vshim_pre_fn pre,
                                                           vshim_post_fn post, vshim_mid_fn mid) {
  g_active = 0;
  __sync_synchronize();
  size_t n = strlen(root);
  if (n >= sizeof(g_root)) n = sizeof(g_root) - 1;
  memcpy(g_root, root, n);
  g_root[n] = 0;
  g_root_len = n;
  g_pre = pre;
  g_post = post;
  g_mid = mid;
  __sync_synchronize();
  g_active = 1;
}

__attribute__((visibility("default"))) int vshim_present(void) { return 1; }

static int path_tracked(const char *p) {
  if (!g_active || in_cb || !p || g_root_len == 0) return 0;
  return strncmp(p, g_root, g_root_len) == 0;
}
static int fd_tracked(int fd) {
  if (!g_active || in_cb || fd < 0 || fd >= MAXFD) return 0;
  return g_tracked[fd];
}

static void call_pre(const vshim_event *e, vshim_action *a) {
  a->action = ACT_PASS;
  a->err = 0;
  a->n = 0;
  if (g_pre) {
    in_cb = 1;
    g_pre(e, a);
    in_cb = 0;
  }
}
static void call_post(const vshim_event *e, int64_t r, int err) {
  if (g_post) {
    int saved = errno;
    in_cb = 1;
    g_post(e, r, err);
    in_cb = 0;
    errno = saved;
  }
}
static void call_mid(const vshim_event *e) {
  if (g_mid) {
    in_cb = 1;
    g_mid(e);
    in_cb = 0;
  }
}

#define REAL(name) \
  static __typeof__(&name) real = 0; \
  if (!real) real = (__typeof__(&name))dlsym(RTLD_NEXT, #name);

// ---------------------------------------------------------------- open family
static int do_open(int (*realfn)(const char *, int, ...), const char *path, int flags, mode_t mode) {
  if (!path_tracked(path)) return realfn(path, flags, mode);
  vshim_event e = {EV_OPEN, -1, flags, 0, path, 0, 0, 0, 0};
  vshim_action a;
  call_pre(&e, &a);
  if (a.action == ACT_FAIL) {
    call_post(&e, -1, a.err);
    errno = a.err;
    return -1;
  }
  int fd = realfn(path, flags, mode);
  int err = errno;
  if (fd >= 0 && fd < MAXFD) g_tracked[fd] = 1;
  e.fd = fd;
  call_post(&e, fd, fd < 0 ? err : 0);
  errno = err;
  return fd;
}

int open(const char *path, int flags, ...) {
  REAL(open);
  mode_t mode = 0;
  if (flags & (O_CREAT | O_TMPFILE)) {
    va_list ap;
    va_start(ap, flags);
    mode = va_arg(ap, mode_t);
    va_end(ap);
  }
  return do_open(real, path, flags, mode);
}
int open64(const char *path, int flags, ...) {
  REAL(open64);
  mode_t mode = 0;
  if (flags & (O_CREAT | O_TMPFILE)) {
    va_list ap;
    va_start(ap, flags);
    mode = va_arg(ap, mode_t);
    va_end(ap);
  }
  return do_open(real, path, flags, mode);
}
static int do_openat(int (*realfn)(int, const char *, int, ...), int dfd, const char *path, int flags,
                     mode_t mode) {
  if (!path_tracked(path)) return realfn(dfd, path, flags, mode);
  vshim_event e = {EV_OPEN, -1, flags, 1, path, 0, 0, 0, 0};
  vshim_action a;
  call_pre(&e, &a);
  if (a.action == ACT_FAIL) {
    call_post(&e, -1, a.err);
    errno = a.err;
    return -1;
  }
  int fd = realfn(dfd, path, flags, mode);
  int err = errno;
  if (fd >= 0 && fd < MAXFD) g_tracked[fd] = 1;
  e.fd = fd;
  call_post(&e, fd, fd < 0 ? err : 0);
  errno = err;
  return fd;
}
int openat(int dfd, const char *path, int flags, ...) {
  REAL(openat);
  mode_t mode = 0;
  if (flags & (O_CREAT | O_TMPFILE)) {
    va_list ap;
    va_start(ap, flags);
    mode = va_arg(ap, mode_t);
    va_end(ap);
  }
  return do_openat(real, dfd, path, flags, mode);
}
int openat64(int dfd, const char *path, int flags, ...) {
  REAL(openat64);
  mode_t mode = 0;
  if (flags & (O_CREAT | O_TMPFILE)) {
    va_list ap;
    va_start(ap, flags);
    mode = va_arg(ap, mode_t);
    va_end(ap);
  }
  return do_openat(real, dfd, path, flags, mode);
}
int creat(const char *path, mode_t mode) {
  REAL(open);
  return do_open(real, path, O_CREAT | O_WRONLY | O_TRUNC, mode);
}
int creat64(const char *path, mode_t mode) {
  REAL(open64);
  return do_open(real, path, O_CREAT | O_WRONLY | O_TRUNC, mode);
}

// ---------------------------------------------------------------- close
int close(int fd) {
  REAL(close);
  if (!fd_tracked(fd)) {
    if (fd >= 0 && fd < MAXFD) g_tracked[fd] = 0;
    return real(fd);
  }
  // The callback runs BEFORE the real close: afterwards the descriptor number may already
  // have been handed to another thread's open.
  vshim_event e = {EV_CLOSE, fd, 0, 0, 0, 0, 0, 0, 0};
  g_tracked[fd] = 0;
  call_post(&e, 0, 0);
  return real(fd);
}

// ---------------------------------------------------------------- write
ssize_t write(int fd, const void *buf, size_t len) {
  REAL(write);
  if (!fd_tracked(fd)) return real(fd, buf, len);
  vshim_event e = {EV_WRITE, fd, 0, 0, 0, 0, buf, len, -1};
  vshim_action a;
  call_pre(&e, &a);
  if (a.action == ACT_FAIL) {
    call_post(&e, -1, a.err);
    errno = a.err;
    return -1;
  }
  if (a.action == ACT_SHORT && a.n < len) {
    ssize_t r = a.n ? real(fd, buf, a.n) : 0;
    int err = errno;
    e.sub = 1;
    call_post(&e, r, r < 0 ? err : 0);
    errno = err;
    return r;
  }
  if (a.action == ACT_SPLIT && a.n > 0 && a.n < len) {
    ssize_t r1 = real(fd, buf, a.n);
    if (r1 != (ssize_t)a.n) {
      int err = errno;
      call_post(&e, r1, r1 < 0 ? err : 0);
      errno = err;
      return r1;
    }
    e.sub = 2;
    call_mid(&e);
    ssize_t r2 = real(fd, (const char *)buf + a.n, len - a.n);
    int err = errno;
    ssize_t r = r2 < 0 ? r1 : r1 + r2;
    call_post(&e, r, 0);
    errno = err;
    return r;
  }
  ssize_t r = real(fd, buf, len);
  int err = errno;
  call_post(&e, r, r < 0 ? err : 0);
  errno = err;
  return r;
}

ssize_t pwrite(int fd, const void *buf, size_t len, off_t off) {
  REAL(pwrite);
  if (!fd_tracked(fd)) return real(fd, buf, len, off);
  vshim_event e = {EV_PWRITE, fd, 0, 0, 0, 0, buf, len, off};
  vshim_action a;
  call_pre(&e, &a);
  ssize_t r = real(fd, buf, len, off);
  int err = errno;
  call_post(&e, r, r < 0 ? err : 0);
  errno = err;
  return r;
}
ssize_t pwrite64(int fd, const void *buf, size_t len, off64_t off) {
  REAL(pwrite64);
  if (!fd_tracked(fd)) return real(fd, buf, len, off);
  vshim_event e = {EV_PWRITE, fd, 0, 0, 0, 0, buf, len, off};
  vshim_action a;
  call_pre(&e, &a);
  ssize_t r = real(fd, buf, len, off);
  int err = errno;
  call_post(&e, r, r < 0 ? err : 0);
  errno = err;
  return r;
}
ssize_t writev(int fd, const struct iovec *iov, int cnt) {
  REAL(writev);
  if (!fd_tracked(fd)) return real(fd, iov, cnt);
  // Never used by the store; performed as a sequence of tracked writes so that the
  // record stays exact.
  ssize_t total = 0;
  for (int i = 0; i < cnt; i++) {
    if (iov[i].iov_len == 0) continue;
    ssize_t r = write(fd, iov[i].iov_base, iov[i].iov_len);
    if (r < 0) return total ? total : -1;
    total += r;
    if ((size_t)r < iov[i].iov_len) break;
  }
  return total;
}

// ---------------------------------------------------------------- fsync
static int do_sync(int (*realfn)(int), int fd, int sub) {
  if (!fd_tracked(fd)) return realfn(fd);
  vshim_event e = {EV_FSYNC, fd, 0, sub, 0, 0, 0, 0, 0};
  vshim_action a;
  call_pre(&e, &a);
  if (a.action == ACT_FAIL) {
    call_post(&e, -1, a.err);
    errno = a.err;
    return -1;
  }
  int r = realfn(fd);
  int err = errno;
  call_post(&e, r, r < 0 ? err : 0);
  errno = err;
  return r;
}
int fsync(int fd) {
  REAL(fsync);
  return do_sync(real, fd, 0);
}
int fdatasync(int fd) {
  REAL(fdatasync);
  return do_sync(real, fd, 1);
}

// ---------------------------------------------------------------- unlink
int unlink(const char *path) {
  REAL(unlink);
  if (!path_tracked(path)) return real(path);
  vshim_event e = {EV_UNLINK, -1, 0, 0, path, 0, 0, 0, 0};
  vshim_action a;
  call_pre(&e, &a);
  if (a.action == ACT_FAIL) {
    call_post(&e, -1, a.err);
    errno = a.err;
    return -1;
  }
  int r = real(path);
  int err = errno;
  call_post(&e, r, r < 0 ? err : 0);
  errno = err;
  return r;
}
int unlinkat(int dfd, const char *path, int flags) {
  REAL(unlinkat);
  if (!path_tracked(path)) return real(dfd, path, flags);
  vshim_event e = {EV_UNLINK, -1, flags, 1, path, 0, 0, 0, 0};
  vshim_action a;
  call_pre(&e, &a);
  if (a.action == ACT_FAIL) {
    call_post(&e, -1, a.err);
    errno = a.err;
    return -1;
  }
  int r = real(dfd, path, flags);
  int err = errno;
  call_post(&e, r, r < 0 ? err : 0);
  errno = err;
  return r;
}

// ---------------------------------------------------------------- truncate / rename / others
int ftruncate(int fd, off_t len) {
  REAL(ftruncate);
  if (!fd_tracked(fd)) return real(fd, len);
  vshim_event e = {EV_TRUNCATE, fd, 0, 0, 0, 0, 0, (uint64_t)len, 0};
  vshim_action a;
  call_pre(&e, &a);
  int r = real(fd, len);
  int err = errno;
  call_post(&e, r, r < 0 ? err : 0);
  errno = err;
  return r;
}
int ftruncate64(int fd, off64_t len) {
  REAL(ftruncate64);
  if (!fd_tracked(fd)) return real(fd, len);
  vshim_event e = {EV_TRUNCATE, fd, 0, 0, 0, 0, 0, (uint64_t)len, 0};
  vshim_action a;
  call_pre(&e, &a);
  int r = real(fd, len);
  int err = errno;
  call_post(&e, r, r < 0 ? err : 0);
  errno = err;
  return r;
}
int truncate(const char *path, off_t len) {
  REAL(truncate);
  if (!path_tracked(path)) return real(path, len);
  vshim_event e = {EV_TRUNCATE, -1, 0, 1, path, 0, 0, (uint64_t)len, 0};
  vshim_action a;
  call_pre(&e, &a);
  int r = real(path, len);
  int err = errno;
  call_post(&e, r, r < 0 ? err : 0);
  errno = err;
  return r;
}
int truncate64(const char *path, off64_t len) {
  REAL(truncate64);
  if (!path_tracked(path)) return real(path, len);
  vshim_event e = {EV_TRUNCATE, -1, 0, 1, path, 0, 0, (uint64_t)len, 0};
  vshim_action a;
  call_pre(&e, &a);
  int r = real(path, len);
  int err = errno;
  call_post(&e, r, r < 0 ? err : 0);
  errno = err;
  return r;
}
int rename(const char *from, const char *to) {
  REAL(rename);
  if (!path_tracked(from) && !path_tracked(to)) return real(from, to);
  vshim_event e = {EV_RENAME, -1, 0, 0, from, to, 0, 0, 0};
  vshim_action a;
  call_pre(&e, &a);
  int r = real(from, to);
  int err = errno;
  call_post(&e, r, r < 0 ? err : 0);
  errno = err;
  return r;
}
int renameat(int d1, const char *from, int d2, const char *to) {
  REAL(renameat);
  if (!path_tracked(from) && !path_tracked(to)) return real(d1, from, d2, to);
  vshim_event e = {EV_RENAME, -1, 0, 1, from, to, 0, 0, 0};
  vshim_action a;
  call_pre(&e, &a);
  int r = real(d1, from, d2, to);
  int err = errno;
  call_post(&e, r, r < 0 ? err : 0);
  errno = err;
  return r;
}
int link(const char *from, const char *to) {
  REAL(link);
  if (!path_tracked(from) && !path_tracked(to)) return real(from, to);
  vshim_event e = {EV_OTHER, -1, 0, 1, from, to, 0, 0, 0};
  vshim_action a;
  call_pre(&e, &a);
  int r = real(from, to);
  int err = errno;
  call_post(&e, r, r < 0 ? err : 0);
  errno = err;
  return r;
}
int symlink(const char *from, const char *to) {
  REAL(symlink);
  if (!path_tracked(to)) return real(from, to);
  vshim_event e = {EV_OTHER, -1, 0, 2, from, to, 0, 0, 0};
  vshim_action a;
  call_pre(&e, &a);
  int r = real(from, to);
  int err = errno;
  call_post(&e, r, r < 0 ? err : 0);
  errno = err;
  return r;
}
int fallocate(int fd, int mode, off_t off, off_t len) {
  REAL(fallocate);
  if (!fd_tracked(fd)) return real(fd, mode, off, len);
  vshim_event e = {EV_OTHER, fd, mode, 3, 0, 0, 0, (uint64_t)len, off};
  vshim_action a;
  call_pre(&e, &a);
  int r = real(fd, mode, off, len);
  int err = errno;
  call_post(&e, r, r < 0 ? err : 0);
  errno = err;
  return r;
}
int posix_fallocate(int fd, off_t off, off_t len) {
  REAL(posix_fallocate);
  if (!fd_tracked(fd)) return real(fd, off, len);
  vshim_event e = {EV_OTHER, fd, 0, 4, 0, 0, 0, (uint64_t)len, off};
  vshim_action a;
  call_pre(&e, &a);
  int r = real(fd, off, len);
  call_post(&e, r, r);
  return r;
}

// ---------------------------------------------------------------- mmap
void *mmap(void *addr, size_t len, int prot, int flags, int fd, off_t off) {
  REAL(mmap);
  if (!fd_tracked(fd)) return real(addr, len, prot, flags, fd, off);
  vshim_event e = {EV_MMAP, fd, prot, flags, 0, 0, 0, len, off};
  vshim_action a;
  call_pre(&e, &a);
  if (a.action == ACT_FAIL) {
    call_post(&e, -1, a.err);
    errno = a.err;
    return MAP_FAILED;
  }
  void *r = real(addr, len, prot, flags, fd, off);
  int err = errno;
  call_post(&e, r == MAP_FAILED ? -1 : 0, r == MAP_FAILED ? err : 0);
  errno = err;
  return r;
}
void *mmap64(void *addr, size_t len, int prot, int flags, int fd, off64_t off) {
  REAL(mmap64);
  if (!fd_tracked(fd)) return real(addr, len, prot, flags, fd, off);
  vshim_event e = {EV_MMAP, fd, prot, flags, 0, 0, 0, len, off};
  vshim_action a;
  call_pre(&e, &a);
  if (a.action == ACT_FAIL) {
    call_post(&e, -1, a.err);
    errno = a.err;
    return MAP_FAILED;
  }
  void *r = real(addr, len, prot, flags, fd, off);
  int err = errno;
  call_post(&e, r == MAP_FAILED ? -1 : 0, r == MAP_FAILED ? err : 0);
  errno = err;
  return r;
}

// ---------------------------------------------------------------- accept faults
// Self-contained (no callback): the next `n` calls of accept/accept4 in this process fail with
// `err` without touching the kernel, so the pending connection stays in the listen backlog -
// what a listener sees when the process is out of descriptors (EMFILE/ENFILE) or memory
// (ENOBUFS/ENOMEM), or when the kernel reports a connection that went away (ECONNABORTED).
#include <sys/socket.h>
static volatile int g_accept_fail = 0;
static volatile int g_accept_err = 0;
static volatile int g_accept_fired = 0;

__attribute__((visibility("default"))) void vshim_accept_arm(int n, int err) {
  g_accept_err = err;
  g_accept_fired = 0;
  __sync_synchronize();
  g_accept_fail = n;
}
// returns the number of accepts that failed since the last arm and disarms
__attribute__((visibility("default"))) int vshim_accept_disarm(void) {
  g_accept_fail = 0;
  __sync_synchronize();
  return __sync_lock_test_and_set(&g_accept_fired, 0);
}
static int accept_fault(void) {
  for (;;) {
    int cur = g_accept_fail;
    if (cur <= 0) return 0;
    if (__sync_bool_compare_and_swap(&g_accept_fail, cur, cur - 1)) {
      __sync_fetch_and_add(&g_accept_fired, 1);
      return g_accept_err;
    }
  }
}
int accept4(int fd, struct sockaddr *addr, socklen_t *len, int flags) {
  REAL(accept4);
  int err = accept_fault();
  if (err) {
    errno = err;
    return -1;
  }
  return real(fd, addr, len, flags);
}
int accept(int fd, struct sockaddr *addr, socklen_t *len) {
  REAL(accept);
  int err = accept_fault();
  if (err) {
    errno = err;
    return -1;
  }
  return real(fd, addr, len);
}
