#!/usr/bin/env python3
"""Print the markdown table of seeded changes (DESIGN.md 12.6) from seeded/*/meta.json."""
import json, glob, os, re
rows = []
for mp in sorted(glob.glob(os.path.join(os.path.dirname(os.path.abspath(__file__)), "..", "seeded", "*", "meta.json"))):
    sid = os.path.basename(os.path.dirname(mp))
    m = json.load(open(mp))
    needs = re.sub(r"\s+", " ", m.get("needs_to_manifest", "")).strip()
    needs = re.sub(r"^#+\s*", "", needs)
    summ = m.get("summary") or needs[:170]
    det = m.get("detected_by", [])
    ran = sorted(m.get("runs", {}).keys())
    own = m.get("breaks_property")
    hit = "yes" if own in det else ("no" if own in ran else "not run")
    sig = ""
    if own in m.get("runs", {}) and m["runs"][own]["signatures"]:
        sig = m["runs"][own]["signatures"][0]
    rows.append("| %s | %s | %s | %s | %s |" % (sid, summ.replace("|", "/"), hit + (" `%s`" % sig if sig else ""), ", ".join(d for d in det if d != own) or "-", m.get("note", "")))
print("| seed | change (what it needs to manifest) | caught by its own check | also caught by | note |")
print("|---|---|---|---|---|")
print("\n".join(rows))
