#!/bin/sh
# seedimport.sh <PROP> <n> <worktree> : verify and import a seeded change into /verif/seeded/<PROP>-<n>/
prop=$1; n=$2; wt=$3; outn=${4:-$2}
out=$(/verif/tools/seedverify.sh "$wt" "$n" 2>&1)
echo "$out" | tail -4
echo "$out" | grep -q "^CONFIRMED" || { echo "not importing $prop-$n"; exit 1; }
d=/verif/seeded/$prop-$outn
mkdir -p "$d/demo"
cp "$wt/patch$n.diff" "$d/patch.diff"
cp -r "$wt/demo$n/." "$d/demo/"
[ -s "$wt/aux$n.diff" ] && cp "$wt/aux$n.diff" "$d/aux.diff"
python3 - "$prop" "$n" "$wt" "$d" <<'PYEOF'
import json, sys, os
prop, n, wt, d = sys.argv[1:5]
needs = ""
mp = os.path.join(wt, "demo%s" % n, "META.md")
if os.path.exists(mp):
    needs = open(mp).read().strip()
metap = os.path.join(d, "meta.json")
meta = json.load(open(metap)) if os.path.exists(metap) else {}
meta.update({
    "breaks_property": prop,
    "origin": "written by a fresh sub-agent that saw only the property text and a scratch worktree, nothing from /verif",
    "needs_to_manifest": needs,
    "confirmed_by": "tools/seedverify.sh in the scratch worktree: demonstration passes on the clean tree, fails with patch.diff applied; the existing 44 tests pass with it; builds with --features verif",
    "how_checks_were_run": "tools/seedrun.py: git -C /repo apply patch.diff; bin/vcheck <ID> quick (VERIF_SEED=1); git -C /repo checkout -- .",
})
json.dump(meta, open(metap, "w"), indent=1)
PYEOF
echo "imported $d"
