#!/bin/sh
# seedround2.sh <PROP> : import patch1..3 of /tmp/wt6-<PROP> as <PROP>-11.. and run the relevant quick checks
p=$1
STORE="C01 C02 C03 C04 C05 C09 C12 C13 C14 C19 C20"
NET="C06 C07 C08 C10 C11 C15 C16"
# round 5: the change's own check first; the rest of its family only when that one misses it
case $p in
C06|C07|C08|C10|C11|C15|C16) family="$NET" ;;
C17|C18) family="C17 C18 C01 C02 C04 C05 C20" ;;
*) family="$STORE" ;;
esac
checks="$p"
cd /verif
for n in 1 2 3; do
  [ -f /tmp/wt6-$p/patch$n.diff ] || continue
  out=$((n+50))
  tools/seedimport.sh $p $n /tmp/wt6-$p $out 2>&1 | tail -2 | tr '\n' ' '; echo
  [ -d seeded/$p-$out ] || continue
  echo "=== $p-$out"; r=$(tools/seedrun.py $p-$out seeded/$p-$out/patch.diff $checks 2>&1 | tail -4 | cut -c1-260); echo "$r"
  if echo "$r" | grep -q "detected by: \[\]"; then
    echo "--- own check missed it: running the family"
    tools/seedrun.py $p-$out seeded/$p-$out/patch.diff $family 2>&1 | tail -13 | cut -c1-260
  fi
done
