#!/usr/bin/env python3
"""Run /verif checks against a seeded change: apply the patch to /repo, run the quick checks,
undo the patch straight afterwards.  usage: seedrun.py <seed-id> <patch.diff> [CHECK ...]"""
import json, os, re, subprocess, sys, time

ALL = ["C%02d" % i for i in range(1, 21)]

def main():
    sid, patch = sys.argv[1], os.path.abspath(sys.argv[2])
    checks = sys.argv[3:] or ALL
    st = subprocess.run(["git", "-C", "/repo", "status", "--porcelain"], capture_output=True, text=True).stdout.strip()
    if st:
        print("refusing: /repo is not clean:\n" + st); sys.exit(2)
    r = subprocess.run(["git", "-C", "/repo", "apply", patch], capture_output=True, text=True)
    if r.returncode != 0:
        # the patch was written against an earlier /repo commit: three-way apply, then unstage
        r = subprocess.run(["git", "-C", "/repo", "apply", "-3", patch], capture_output=True, text=True)
        subprocess.run(["git", "-C", "/repo", "reset", "-q"])
        if r.returncode != 0 or "conflict" in (r.stderr or "").lower():
            subprocess.run(["git", "-C", "/repo", "checkout", "--", "."])
            print("patch does not apply to /repo:", r.stderr); sys.exit(2)
    results = {}
    try:
        for c in checks:
            t0 = time.time()
            env = dict(os.environ, VERIF_SEED=os.environ.get("VERIF_SEED", "1"))
            p = subprocess.run(["/verif/bin/vcheck", c, "quick"], capture_output=True, text=True, cwd="/verif", env=env)
            out = p.stdout
            sigs = sorted(set(re.findall(r"signature: (\S+)", out)))
            first = ""
            m = re.search(r"VIOLATION[^\n]*\n\s+signature:[^\n]*\n\s+([^\n]*)", out)
            if m:
                first = m.group(1)[:300]
            results[c] = {"exit": p.returncode, "signatures": sigs[:6], "first": first, "wall_s": round(time.time() - t0, 1)}
            print("%s exit=%d %.0fs %s %s" % (c, p.returncode, time.time() - t0, sigs[:3], first[:160]), flush=True)
    finally:
        subprocess.run(["git", "-C", "/repo", "checkout", "--", "."], check=True)
        subprocess.run(["rm", "-rf", "/verif/replays"])
    d = "/verif/seeded/%s" % sid
    os.makedirs(d, exist_ok=True)
    metap = os.path.join(d, "meta.json")
    meta = json.load(open(metap)) if os.path.exists(metap) else {}
    meta.setdefault("runs", {}).update(results)
    meta["detected_by"] = sorted(c for c, r in meta["runs"].items() if r["exit"] == 1)
    json.dump(meta, open(metap, "w"), indent=1)
    print("detected by:", meta["detected_by"])

main()
