#!/usr/bin/env python3
"""Generate /verif/MANIFEST.json from the table below (kept in one place so it stays valid)."""
import json, subprocess

CHECKS = {
 "C01": ("exploration", "model-based stateful PBT (proptest histories vs BTreeMap model)",
         "Generated operation histories with rollovers and merges at arbitrary positions under arbitrary configurations, compared with a reference map after every step; says the property held on every explored history, not that no violating history exists.",
         "trusts the harness's BTreeMap model and the verif_merge/verif_dump hooks; single threaded", "6/C01"),
 "C02": ("exploration", "model-based stateful PBT with close/reopen cycles",
         "Generated merge-free histories with deletes, overwrites across files and repeated reopen cycles compared with a reference map after every reopen.",
         "clean close only (crashes are C03)", "6/C02"),
 "C03": ("fault_enumeration", "PBT workloads + exhaustive crash-point enumeration over the recorded syscall log",
         "For each generated workload every prefix of its recorded mutating file-system calls is materialised and recovered; acknowledged ops must be present, the in-flight op all-or-nothing. Complete per workload for the property's kill model; workloads are sampled.",
         "kill model = prefix of system calls (as the property states); LD_PRELOAD recorder sees libc-level calls; all-eligible merges", "6/C03"),
 "C04": ("exploration", "concurrent PBT with syscall-level schedule perturbation + Wing-Gong linearizability checker",
         "Generated multi-threaded programs with a merging thread under generated pause/split-write plans at file-system calls; no panic, no error, byte-exact values, per-key linearizability, reader pool intact, no hang. Schedules are sampled, not enumerated.",
         "preemption controlled only at tracked syscalls; everything else is the OS scheduler", "6/C04"),
 "C05": ("exploration", "model-based stateful PBT over arbitrary merge thresholds",
         "Histories with merges selecting arbitrary file subsets, reads compared with the model right after each merge and after each later reopen; one known finding (D2) is tolerated by an exact structural signature.",
         "merges through verif_merge; D2 tolerated only under signature tombstone-dropped", "6/C05"),
 "C09": ("fault_enumeration", "PBT workloads + exhaustive power-loss state enumeration (per-file synced/unsynced cuts)",
         "For each generated sync=always workload, at every call boundary the worst-case state (every file cut to its last fsync) and generated intermediate cuts are recovered and compared with the model of acknowledged ops.",
         "failure model exactly as stated in the property; directory operations durable", "6/C09"),
 "C12": ("exploration", "differential PBT (recovery with vs without hint files)",
         "For generated histories with merges, the closed directory is recovered twice, with and without *.hint, and all reads and index key sets must agree.",
         "hint files only arise from merges run through the hook", "6/C12"),
 "C13": ("exploration", "PBT with size oracles and a differential reference store",
         "Total data size must not grow across any merge; with all files eligible it must equal the size of a fresh store of the live pairs (formula, independent decoder and sampled reference store), and a repeated merge must be a no-op.",
         "sizes measured with the store open", "6/C13"),
 "C14": ("exploration", "PBT workloads + invariant checking over the complete recorded call log and shadow files",
         "Every recorded open/write/unlink/... of every generated run (including runs started from crash states) is checked against the append-only/immutable/ids-grow discipline and a shadow copy of every file.",
         "observes libc-level calls via LD_PRELOAD; raw syscalls would only be caught by the shadow comparison", "6/C14"),
 "C19": ("exploration", "PBT with an independent on-disk decoder as ground truth",
         "After every op of generated histories the verif_dump accounting and index are compared with an independent scan of the data files.",
         "independent decoder written from the format; crash-free histories", "6/C19"),
 "C20": ("fault_enumeration", "PBT workloads + exhaustive single-fault injection at every recorded fault site",
         "For each generated workload every create/write/fsync/unlink site is re-run with one transient ENOSPC/EIO (and short write) fault; the failing op must report an error and all other acknowledged ops must read correctly in-process and after restart.",
         "one transient fault per run; site numbering from a fault-free run (merge order is hash-seeded, the signature uses the call actually hit)", "6/C20"),
}

SHIM = {"C03", "C04", "C09", "C11", "C14", "C18", "C20"}
ALL = ["C%02d" % i for i in range(1, 21)]

def main():
    hooks = subprocess.run(["git", "-C", "/repo", "log", "--format=%H %s"], capture_output=True, text=True).stdout.splitlines()
    hook_commits = [l.split()[0] for l in hooks if "verif hooks" in l]
    checks = []
    for pid in ALL:
        if pid not in CHECKS:
            continue
        level, tech, text, note, ref = CHECKS[pid]
        checks.append({
            "property_id": pid,
            "quick_cmd": "bin/vcheck %s quick" % pid,
            "thorough_cmd": "bin/vcheck %s thorough" % pid,
            "evidence_file": "/verif/evidence/%s.json" % pid,
            "replay_cmd_template": "bin/vcheck replay {path}",
            "engine": "vh",
            "level_claimed": {"category": level, "text": text, "design_ref": "DESIGN.md section " + ref},
            "level_note": note,
            "technique": tech,
        })
    na = [{"property_id": p, "reason": "check not built yet in this round (planned, see DESIGN.md section 6)"} for p in ALL if p not in CHECKS]
    m = {
        "version": 1,
        "setup_cmd": "bin/vcheck setup",
        "hooks": {
            "guard": "cargo feature `verif`",
            "enable": "the harness depends on bitcask = { path = \"/repo\", features = [\"verif\"] } and is rebuilt by every check (cargo build --release --offline in /verif/harness)",
            "baseline_off_cmd": "cd /repo && cargo test --workspace --no-fail-fast --offline",
            "source_commits": hook_commits,
            "add_only": True,
        },
        "engines": [
            {"name": "vh", "path": "/verif/harness", "serves_properties": sorted(CHECKS), "kind_free_text": "Rust harness: seeded proptest driver with shrinking and replay files, 16 process shards, reference models, independent disk decoder; LD_PRELOAD shim (/verif/shim/vshim.c) for recording, crash/power-loss materialisation, fault injection and schedule perturbation"},
        ],
        "checks": checks,
        "not_applicable": na,
        "notes": "Exit codes: 0 held (KNOWN-FINDING lines possible), 1 violation, 2 harness problem/inconclusive. known findings: /verif/known_findings.txt. Corpus of minimal reproductions replayed first in every run: /verif/corpus/<id>/.",
    }
    json.dump(m, open("/verif/MANIFEST.json", "w"), indent=1)
    print("wrote MANIFEST.json with", len(checks), "checks,", len(na), "not_applicable")

main()
