#!/bin/sh
# Confirm a seeded change in its scratch worktree: with the patch the existing 44 tests pass and the
# demonstration fails; without it the demonstration passes.
#   seedverify.sh <worktree> <n>
wt=$1; n=$2
cd "$wt" || exit 2
export CARGO_NET_OFFLINE=true
git checkout -q -- src 2>/dev/null
rm -rf tests; mkdir -p tests
demo=$(ls demo$n/*.rs 2>/dev/null | head -1)
[ -z "$demo" ] && { echo "no demo rs file in demo$n"; exit 2; }
cp "$demo" tests/seed_demo.rs
[ -f aux$n.diff ] && [ -s aux$n.diff ] && { git apply aux$n.diff || { echo "aux does not apply"; exit 2; }; }
echo "== clean tree: demo must pass"
cargo test --offline --features verif --test seed_demo >/tmp/seedverify.$$.log 2>&1; rc_clean=$?
tail -3 /tmp/seedverify.$$.log | cut -c1-200
git apply patch$n.diff || { echo "patch does not apply"; exit 2; }
echo "== patched: demo must fail"
cargo test --offline --features verif --test seed_demo >/tmp/seedverify.$$.log 2>&1; rc_pat=$?
grep -E "panicked|test result|FAILED" /tmp/seedverify.$$.log | head -5 | cut -c1-300
echo "== patched: existing suite must pass (44)"
rm -rf tests
[ -f aux$n.diff ] && [ -s aux$n.diff ] && git apply -R aux$n.diff
cargo test --offline --lib >/tmp/seedverify.$$.log 2>&1
grep -E "^test result" /tmp/seedverify.$$.log | head -1
suite=$(grep -cE "^test result: ok. 44 passed; 0 failed" /tmp/seedverify.$$.log)
cargo build --offline --features verif >/dev/null 2>&1; rc_build=$?
git checkout -q -- src
rm -f /tmp/seedverify.$$.log
echo "SUMMARY clean_demo_rc=$rc_clean patched_demo_rc=$rc_pat suite_ok=$suite build_verif_rc=$rc_build"
if [ $rc_clean -eq 0 ] && [ $rc_pat -ne 0 ] && [ "$suite" = "1" ] && [ $rc_build -eq 0 ]; then echo "CONFIRMED"; else echo "NOT-CONFIRMED"; exit 1; fi
