//! libFuzzer target for C01/C02/C05 (merges under arbitrary thresholds): bytes -> (config, ops),
//! the real store against a BTreeMap model, in-target oracle.
#![no_main]
use std::collections::BTreeMap;

use arbitrary::Unstructured;
use bitcask::storage::{bitcask::Config, KeyValueStorage};
use bytes::Bytes;
use libfuzzer_sys::fuzz_target;

fn cfg(dir: &std::path::Path, mfs: u64, cache: usize, conc: usize, thr: (f64, u64, u64)) -> Config {
    serde_json::from_value(serde_json::json!({
        "path": dir.to_string_lossy(),
        "concurrency": conc,
        "readers_cache_size": cache,
        "max_file_size": mfs,
        "sync": "none",
        // arbitrary thresholds: merges select arbitrary subsets of files
        "merge": {"policy": "never", "thresholds": {"fragmentation": thr.0, "dead_bytes": thr.1, "small_file": thr.2}},
    }))
    .unwrap()
}

fuzz_target!(|data: &[u8]| {
    let mut u = Unstructured::new(data);
    let mfs = *u.choose(&[0u64, 1, 40, 100, 300, 4096, 1 << 31]).unwrap_or(&300);
    let cache = *u.choose(&[0usize, 1, 2, 256]).unwrap_or(&1);
    let conc = *u.choose(&[0usize, 1, 4]).unwrap_or(&1);
    let thr = (
        *u.choose(&[0.0f64, 0.2, 0.5, 0.8, 1.0]).unwrap_or(&0.0),
        *u.choose(&[0u64, 30, 200, u64::MAX]).unwrap_or(&0),
        *u.choose(&[0u64, 60, 300, u64::MAX]).unwrap_or(&u64::MAX),
    );
    let dir = std::path::PathBuf::from(format!("/dev/shm/vfuzz-store-{}", std::process::id()));
    let _ = std::fs::remove_dir_all(&dir);
    std::fs::create_dir_all(&dir).unwrap();
    let mut model: BTreeMap<Vec<u8>, Vec<u8>> = BTreeMap::new();
    let keys: [&[u8]; 5] = [b"", b"a", b"key-two", b"\x00\r\n\xff", b"a-much-longer-key-a-much-longer-key-a-much-longer-key"];
    let mut kv = Some(cfg(&dir, mfs, cache, conc, thr).open().expect("open"));
    let mut n = 0u32;
    while let Ok(op) = u.int_in_range(0..=9u8) {
        n += 1;
        if n > 200 {
            break;
        }
        let h = kv.as_ref().unwrap().get_handle();
        let k = keys[u.int_in_range(0..=4usize).unwrap_or(0)];
        match op {
            0..=3 => {
                let len = match u.int_in_range(0..=9u8).unwrap_or(0) {
                    0 => 0usize,
                    1..=6 => u.int_in_range(1..=60usize).unwrap_or(1),
                    7 => u.int_in_range(4000..=4200usize).unwrap_or(4096),
                    _ => u.int_in_range(8100..=9000usize).unwrap_or(8192),
                };
                let fill = u.arbitrary::<u8>().unwrap_or(0);
                let mut v = vec![fill; len];
                if len >= 4 {
                    v[..4].copy_from_slice(&n.to_le_bytes());
                }
                h.set(Bytes::copy_from_slice(k), Bytes::from(v.clone())).expect("set");
                model.insert(k.to_vec(), v);
            }
            4 | 5 => {
                let got = h.get(Bytes::copy_from_slice(k)).expect("get").map(|b| b.to_vec());
                assert_eq!(got.as_ref(), model.get(k), "C01 get differs from the model");
            }
            6 | 7 => {
                let got = h.del(Bytes::copy_from_slice(k)).expect("del");
                assert_eq!(got, model.remove(k).is_some(), "C01 del result differs from the model");
            }
            8 => h.verif_merge().expect("merge"),
            _ => {
                drop(h);
                kv = None;
                kv = Some(cfg(&dir, mfs, cache, conc, thr).open().expect("reopen"));
            }
        }
        let h = kv.as_ref().unwrap().get_handle();
        for k in keys {
            let got = h.get(Bytes::copy_from_slice(k)).expect("get").map(|b| b.to_vec());
            assert_eq!(got.as_ref(), model.get(k), "C01/C02 key differs from the model after op {}", n);
        }
    }
    drop(kv);
    let _ = std::fs::remove_dir_all(&dir);
});
