//! libFuzzer target for C08: frames + cut points decoded from the input with
//! arbitrary::Unstructured; Connection over an in-memory chunked stream must round-trip, every
//! strict prefix must be Incomplete, EOF inside a frame must be an error.
#![no_main]
use std::{
    collections::VecDeque,
    io::Cursor,
    pin::Pin,
    task::{Context, Poll},
};

use arbitrary::Unstructured;
use bitcask::net::{
    connection::Connection,
    frame::{Error as FrameError, Frame},
};
use libfuzzer_sys::fuzz_target;
use tokio::io::{AsyncRead, AsyncWrite, ReadBuf};

#[allow(dead_code)]
#[path = "../../harness/src/resp.rs"]
mod resp;
use resp::{encoded, F};

struct ChunkStream {
    chunks: VecDeque<Vec<u8>>,
}
impl AsyncRead for ChunkStream {
    fn poll_read(mut self: Pin<&mut Self>, _cx: &mut Context<'_>, buf: &mut ReadBuf<'_>) -> Poll<std::io::Result<()>> {
        loop {
            match self.chunks.front_mut() {
                None => return Poll::Ready(Ok(())),
                Some(c) if c.is_empty() => {
                    self.chunks.pop_front();
                }
                Some(c) => {
                    let n = c.len().min(buf.remaining());
                    buf.put_slice(&c[..n]);
                    c.drain(..n);
                    return Poll::Ready(Ok(()));
                }
            }
        }
    }
}
impl AsyncWrite for ChunkStream {
    fn poll_write(self: Pin<&mut Self>, _cx: &mut Context<'_>, buf: &[u8]) -> Poll<std::io::Result<usize>> {
        Poll::Ready(Ok(buf.len()))
    }
    fn poll_flush(self: Pin<&mut Self>, _cx: &mut Context<'_>) -> Poll<std::io::Result<()>> {
        Poll::Ready(Ok(()))
    }
    fn poll_shutdown(self: Pin<&mut Self>, _cx: &mut Context<'_>) -> Poll<std::io::Result<()>> {
        Poll::Ready(Ok(()))
    }
}

fn leaf(u: &mut Unstructured<'_>) -> arbitrary::Result<F> {
    Ok(match u.int_in_range(0..=5u8)? {
        0 => {
            let s: String = u.arbitrary()?;
            F::Simple(s.replace(['\r', '\n'], "_"))
        }
        1 => {
            let s: String = u.arbitrary()?;
            F::Error(s.replace(['\r', '\n'], "_"))
        }
        2 => F::Int(u.arbitrary()?),
        3 => F::Int(*u.choose(&[i64::MIN, i64::MIN + 1, -1, 0, 1, i64::MAX, 999_999_999_999_999_999, 1_000_000_000_000_000_000])?),
        4 => F::Bulk(u.arbitrary()?),
        _ => F::Null,
    })
}

thread_local! {
    static RT: tokio::runtime::Runtime = tokio::runtime::Builder::new_current_thread().enable_all().build().unwrap();
}

fuzz_target!(|data: &[u8]| {
    let mut u = Unstructured::new(data);
    let nframes = match u.int_in_range(1..=5usize) {
        Ok(n) => n,
        Err(_) => return,
    };
    let mut frames = Vec::new();
    for _ in 0..nframes {
        let f = if u.ratio(1, 4).unwrap_or(false) {
            let n = u.int_in_range(0..=6usize).unwrap_or(0);
            let mut v = Vec::new();
            for _ in 0..n {
                match leaf(&mut u) {
                    Ok(x) => v.push(x),
                    Err(_) => break,
                }
            }
            F::Array(v)
        } else {
            match leaf(&mut u) {
                Ok(x) => x,
                Err(_) => break,
            }
        };
        frames.push(f);
    }
    if frames.is_empty() {
        return;
    }
    let encs: Vec<Vec<u8>> = frames.iter().map(encoded).collect();
    let mut total: Vec<u8> = encs.concat();
    // optional EOF inside the last frame
    let truncate = u.ratio(1, 4).unwrap_or(false) && encs.last().unwrap().len() >= 2;
    let mut want = frames.clone();
    if truncate {
        let last = encs.last().unwrap().len();
        let keep = u.int_in_range(1..=last - 1).unwrap_or(1);
        total.truncate(total.len() - last + keep);
        want.pop();
    }
    // cut points
    let mut cuts: Vec<usize> = Vec::new();
    let ncuts = u.int_in_range(0..=16usize).unwrap_or(0);
    for _ in 0..ncuts {
        if total.len() > 1 {
            cuts.push(u.int_in_range(1..=total.len() - 1).unwrap_or(1));
        }
    }
    if u.ratio(1, 8).unwrap_or(false) && total.len() < 4000 {
        cuts = (1..total.len()).collect();
    }
    cuts.sort_unstable();
    cuts.dedup();
    let mut chunks = VecDeque::new();
    let mut last = 0;
    for c in cuts {
        chunks.push_back(total[last..c].to_vec());
        last = c;
    }
    chunks.push_back(total[last..].to_vec());

    RT.with(|rt| {
        rt.block_on(async {
            let mut conn = Connection::new(ChunkStream { chunks });
            let mut got = Vec::new();
            let end = loop {
                match conn.read_frame().await {
                    Ok(Some(f)) => got.push(F::from_frame(&f)),
                    Ok(None) => break Ok(()),
                    Err(e) => break Err(e.to_string()),
                }
                assert!(got.len() <= want.len(), "C08 more frames decoded than were sent");
            };
            assert_eq!(got, want, "C08 roundtrip mismatch");
            if truncate {
                assert!(end.is_err(), "C08 EOF inside a frame reported as clean end");
            } else {
                assert!(end.is_ok(), "C08 clean end reported as error: {:?}", end);
            }
            // write side: must not fail on an in-memory stream
            let mut w = Connection::new(ChunkStream { chunks: VecDeque::new() });
            for f in &frames {
                w.write_frame(&f.to_frame()).await.expect("C08 write_frame failed");
            }
        })
    });
    // strict prefixes are Incomplete
    for e in &encs {
        let lim = e.len().min(512);
        for p in 0..lim {
            let mut c = Cursor::new(&e[..p]);
            match Frame::check(&mut c) {
                Err(FrameError::Incomplete) => {}
                other => panic!("C08 strict prefix of length {} of a valid encoding gave {:?}", p, other),
            }
        }
    }
});
