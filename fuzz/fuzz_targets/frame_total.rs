//! libFuzzer target for C07: Frame::check / Frame::parse are total and read numbers exactly.
//! Same oracle as the harness (resp.rs is shared by path), in-target: any panic, failed
//! assertion or abort is a finding.
#![no_main]
use std::io::Cursor;

use bitcask::net::frame::Frame;
use libfuzzer_sys::fuzz_target;

#[allow(dead_code)]
#[path = "../../harness/src/resp.rs"]
mod resp;

fuzz_target!(|data: &[u8]| {
    let rc = {
        let mut c = Cursor::new(data);
        Frame::check(&mut c).map(|_| c.position() as usize)
    };
    let rp = {
        let mut c = Cursor::new(data);
        Frame::parse(&mut c).map(|f| (f, c.position() as usize))
    };
    if let Ok((f, n)) = &rp {
        let mut pos = 0;
        if let Err(e) = resp::walk(f, &data[..*n], &mut pos) {
            panic!("C07 misread: {}", e);
        }
        assert_eq!(pos, *n, "C07 misread: frame does not account for the consumed length");
    }
    if let (Ok(n), Ok((_, m))) = (&rc, &rp) {
        assert_eq!(n, m, "C07 check/parse length mismatch on the same buffer");
    }
    if let Ok(n) = rc {
        assert!(n <= data.len(), "C07 check accepted more than the input");
        let pre = &data[..n];
        let mut c = Cursor::new(pre);
        if let Ok(f) = Frame::parse(&mut c) {
            assert_eq!(c.position() as usize, n, "C07 check/parse length mismatch");
            let mut pos = 0;
            if let Err(e) = resp::walk(&f, pre, &mut pos) {
                panic!("C07 misread on checked prefix: {}", e);
            }
        }
    }
});
